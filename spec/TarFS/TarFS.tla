-------------------------------- MODULE TarFS --------------------------------
(* C38 -- Tar extraction never touches anything outside the target.

   A small POSIX file system (directories, regular files, symbolic links; path resolution that follows
   symlinks the way the kernel does; the dozen system calls the extractor uses, with their errno results
   and the implicit mtime update of the parent directory) and, on top of it, a transcription of
   boxo/tar Extractor.Extract at the grain of its system calls:

     first entry  : root-name checks, extractDir | (Lstat target, extractFile / extractSymlink)
     other entries: validateTarPath, getRelativePath, outputPath (Lstat per intermediate component),
                    extractDir = MkdirAll + Lstat, extractSymlink = Remove + Symlink + utimensat(NOFOLLOW),
                    extractFile = Remove + CreateTemp + Rename, then UpdateMetaUnix
     directories  : metadata DEFERRED (deferUpdate, with its early application rule) and applied in reverse
                    order by doUpdates when Extract returns -- also on every error return; its own error is
                    dropped.  UpdateMetaUnix = utimensat(AT_SYMLINK_NOFOLLOW) then chmod, which FOLLOWS links.

   Universe: "/" with  /w (the target's parent), T = /w/t (the target; absent, or pre-populated),
   /o, /o/f, /o/d (the outside area).  Paths are sequences of component tokens.

   Property: Confined -- nothing that is not at or below T ever changes (type, content, mode, mtime,
   existence), no system call ever creates/removes/modifies an object elsewhere (history variable `tch`;
   the one exception is the temporary file the extractor creates next to T when T itself is written).

   Reuse: one Extractor VALUE may serve several Extract calls, each with its own Path (target).  What survives
   in the value between calls is part of the state: the list of deferred updates (`defs`) -- doUpdates stops at
   the first update that fails (a later entry removed the directory and the archive then broke off: a TRUNCATED
   file body, content "trunc") and leaves the list behind; the next call must start from an empty list (Extract
   resets it once the first header has been read).  Action Reuse starts the next call on the file system the
   previous one left (whatever its outcome), after the owner of the previous target has changed the mode and
   mtime of everything in it (Age) -- so that a stale update re-applied by a later call is a visible change --
   and Confined / NoStrayTouch are stated for every call with respect to ITS target (w.tgt) and the file
   system at ITS start (fs0).  "Ctl_KeepDeferred" \in Devs is a control: the list is not reset.

   Devs = {}: a deferred directory update is applied only if the path still is a directory (ideal; this is
   what fixes/C38-deferred-meta-follows-symlink.diff implements).  "Dev_C38_DeferredMetaByPath" \in Devs:
   as built, the update is applied to whatever the path names when Extract returns -- after a later entry
   replaced the (empty) directory by a symlink, chmod lands on the link's target OUTSIDE the target tree. *)
EXTENDS Integers, Sequences, FiniteSets, TLC

CONSTANTS Names,       \* entry names offered to the extractor: sequences of components ("" = empty component)
          DirMeta,     \* {<<mode, mtime>>} choices for dir and file entries; mode 0 = unset, mtime "z" = zero time
          LinkTargets, \* link-name tokens (see Target)
          LinkTimes,   \* mtimes for symlink entries
          Variants,    \* initial contents of the target (see InitFS)
          HarmTypes,   \* entry types offered with a name the extractor must refuse (see HarmBodies)
          MaxEntries,
          Reuse,       \* [calls, targets, names, types, max, contents]: Extract calls per Extractor value; targets, entry
                       \* names, body types and entries per archive of the calls after the first; file contents offered
          Devs

VARIABLES w,     \* the extractor value and its current call: [fs, tch, defs, rootDir, rootName, n, err, done, tgt, call]
          fs0    \* the file system before the current Extract call
vars == <<w, fs0>>

M755 == 493  M700 == 448  M644 == 420  M600 == 384  M777 == 511  M711 == 457  M640 == 416

Root == <<>>
W == <<"w">>
T == <<"w", "t">>                 \* the target of the first call
U == <<"w", "u">>                 \* another target (absent in every initial file system)
TMP == "#tmp"                     \* the name os.CreateTemp picks (never clashes: names are single letters)

Dir(m, t)     == [k |-> "dir",  c |-> "", m |-> m, t |-> t, tg |-> ""]
File(c, m, t) == [k |-> "file", c |-> c,  m |-> m, t |-> t, tg |-> ""]
Link(tg, t)   == [k |-> "link", c |-> "", m |-> M777, t |-> t, tg |-> tg]

\* link-name tokens -> what the kernel sees
Target(tok) == CASE tok = "abs_o"  -> [abs |-> TRUE,  p |-> <<"o">>]
                 [] tok = "abs_of" -> [abs |-> TRUE,  p |-> <<"o", "f">>]
                 [] tok = "up2_o"  -> [abs |-> FALSE, p |-> <<"..", "..", "o">>]
                 [] tok = "rel_a"  -> [abs |-> FALSE, p |-> <<"a">>]

IsPrefix(p, q) == Len(p) <= Len(q) /\ SubSeq(q, 1, Len(p)) = p
Parent(p) == IF p = <<>> THEN <<>> ELSE SubSeq(p, 1, Len(p) - 1)
Last(p) == p[Len(p)]

-----------------------------------------------------------------------------
(* ---------- the file system ---------- *)
Put(fs, p, n) == [q \in DOMAIN fs \cup {p} |-> IF q = p THEN n ELSE fs[q]]
Del(fs, p) == [q \in DOMAIN fs \ {p} |-> fs[q]]
Bump(fs, d) == [fs EXCEPT ![d].t = "n"]            \* the kernel updates a directory's mtime when an entry changes
Children(fs, p) == {q \in DOMAIN fs : Len(q) = Len(p) + 1 /\ IsPrefix(p, q)}

(* Path resolution.  Res(fs, cur, rest, follow, fuel): cur is an existing, fully resolved object; rest the
   remaining components.  Result [e, p, ex]: errno, the resolved path of the final component, whether it
   exists.  Intermediate symlinks are always followed, the final one iff `follow`.                     *)
RECURSIVE Res(_, _, _, _, _)
Res(fs, cur, rest, follow, fuel) ==
  IF rest = <<>> THEN [e |-> "", p |-> cur, ex |-> TRUE]
  ELSE IF fs[cur].k # "dir" THEN [e |-> "ENOTDIR", p |-> cur, ex |-> FALSE]
  ELSE LET c == Head(rest)
           tl == Tail(rest)
           nx == Append(cur, c)
       IN IF c = "" \/ c = "." THEN Res(fs, cur, tl, follow, fuel)
          ELSE IF c = ".." THEN Res(fs, Parent(cur), tl, follow, fuel)
          ELSE IF nx \notin DOMAIN fs
               THEN IF tl = <<>> THEN [e |-> "", p |-> nx, ex |-> FALSE] ELSE [e |-> "ENOENT", p |-> nx, ex |-> FALSE]
          ELSE IF fs[nx].k = "link" /\ (tl # <<>> \/ follow)
               THEN IF fuel = 0 THEN [e |-> "ELOOP", p |-> nx, ex |-> FALSE]
                    ELSE LET tg == Target(fs[nx].tg)
                         IN Res(fs, IF tg.abs THEN Root ELSE cur, tg.p \o tl, follow, fuel - 1)
          ELSE Res(fs, nx, tl, follow, fuel)
Resolve(fs, p, follow) == Res(fs, Root, p, follow, 8)

Ok(ww) == [w |-> ww, e |-> ""]
Er(ww, e) == [w |-> ww, e |-> e]
Touch(ww, fs, ps) == [ww EXCEPT !.fs = fs, !.tch = @ \cup ps]

\* lstat / stat: [e, n]
StatX(fs, p, follow) == LET r == Resolve(fs, p, follow)
                        IN IF r.e # "" THEN [e |-> r.e, n |-> Dir(0, "")]
                           ELSE IF ~r.ex THEN [e |-> "ENOENT", n |-> Dir(0, "")]
                           ELSE [e |-> "", n |-> fs[r.p]]
Lstat(fs, p) == StatX(fs, p, FALSE)
Stat(fs, p)  == StatX(fs, p, TRUE)

Mkdir(ww, p, mode) ==
  LET r == Resolve(ww.fs, p, FALSE)
  IN IF r.e # "" THEN Er(ww, r.e)
     ELSE IF r.ex THEN Er(ww, "EEXIST")
     ELSE Ok(Touch(ww, Bump(Put(ww.fs, r.p, Dir(mode, "n")), Parent(r.p)), {r.p}))

\* os.MkdirAll
RECURSIVE MkdirAll(_, _)
MkdirAll(ww, p) ==
  LET st == Stat(ww.fs, p)
  IN IF st.e = "" THEN (IF st.n.k = "dir" THEN Ok(ww) ELSE Er(ww, "ENOTDIR"))
     ELSE LET up == IF Len(p) > 1 THEN MkdirAll(ww, Parent(p)) ELSE Ok(ww)
          IN IF up.e # "" THEN up
             ELSE LET mk == Mkdir(up.w, p, M755)
                  IN IF mk.e = "" THEN mk
                     ELSE LET l == Lstat(up.w.fs, p)
                          IN IF l.e = "" /\ l.n.k = "dir" THEN Ok(up.w) ELSE Er(up.w, mk.e)

Unlink(ww, p) ==
  LET r == Resolve(ww.fs, p, FALSE)
  IN IF r.e # "" THEN Er(ww, r.e)
     ELSE IF ~r.ex THEN Er(ww, "ENOENT")
     ELSE IF ww.fs[r.p].k = "dir" THEN Er(ww, "EISDIR")
     ELSE Ok(Touch(ww, Bump(Del(ww.fs, r.p), Parent(r.p)), {r.p}))
Rmdir(ww, p) ==
  LET r == Resolve(ww.fs, p, FALSE)
  IN IF r.e # "" THEN Er(ww, r.e)
     ELSE IF ~r.ex THEN Er(ww, "ENOENT")
     ELSE IF ww.fs[r.p].k # "dir" THEN Er(ww, "ENOTDIR")
     ELSE IF Children(ww.fs, r.p) # {} THEN Er(ww, "ENOTEMPTY")
     ELSE Ok(Touch(ww, Bump(Del(ww.fs, r.p), Parent(r.p)), {r.p}))
\* os.Remove: unlink, then rmdir, and pick the more telling errno
Remove(ww, p) ==
  LET u == Unlink(ww, p)
  IN IF u.e = "" THEN u
     ELSE LET d == Rmdir(ww, p)
          IN IF d.e = "" THEN d ELSE Er(ww, IF d.e # "ENOTDIR" THEN d.e ELSE u.e)

Symlink(ww, tg, p) ==
  LET r == Resolve(ww.fs, p, FALSE)
  IN IF r.e # "" THEN Er(ww, r.e)
     ELSE IF r.ex THEN Er(ww, "EEXIST")
     ELSE Ok(Touch(ww, Bump(Put(ww.fs, r.p, Link(tg, "n")), Parent(r.p)), {r.p}))

\* os.CreateTemp(dir, "") + writing the content + Close
CreateTemp(ww, dir, content) ==
  LET r == Resolve(ww.fs, Append(dir, TMP), FALSE)
  IN IF r.e # "" THEN Er(ww, r.e)
     ELSE IF r.ex THEN Er(ww, "EEXIST")
     ELSE Ok(Touch(ww, Bump(Put(ww.fs, r.p, File(content, M600, "n")), Parent(r.p)), {r.p}))

\* rename(2) of a non-directory
Rename(ww, old, new) ==
  LET a == Resolve(ww.fs, old, FALSE)
      b == Resolve(ww.fs, new, FALSE)
  IN IF a.e # "" THEN Er(ww, a.e)
     ELSE IF ~a.ex THEN Er(ww, "ENOENT")
     ELSE IF b.e # "" THEN Er(ww, b.e)
     ELSE IF b.ex /\ ww.fs[b.p].k = "dir" THEN Er(ww, "EISDIR")
     ELSE Ok(Touch(ww, Bump(Bump(Put(Del(ww.fs, a.p), b.p, ww.fs[a.p]), Parent(a.p)), Parent(b.p)), {a.p, b.p}))

\* chmod(2) follows symbolic links
Chmod(ww, p, mode) ==
  LET r == Resolve(ww.fs, p, TRUE)
  IN IF r.e # "" THEN Er(ww, r.e)
     ELSE IF ~r.ex THEN Er(ww, "ENOENT")
     ELSE Ok(Touch(ww, [ww.fs EXCEPT ![r.p].m = mode], {r.p}))
\* utimensat(AT_FDCWD, p, ts, AT_SYMLINK_NOFOLLOW)
Utimes(ww, p, t) ==
  LET r == Resolve(ww.fs, p, FALSE)
  IN IF r.e # "" THEN Er(ww, r.e)
     ELSE IF ~r.ex THEN Er(ww, "ENOENT")
     ELSE Ok(Touch(ww, [ww.fs EXCEPT ![r.p].t = t], {r.p}))

-----------------------------------------------------------------------------
(* ---------- boxo/files meta.go, boxo/tar extractor.go ---------- *)
\* files.UpdateMetaUnix(path, mode, mtime) = UpdateModTime then UpdateFileMode
UpdateModTime(ww, p, t) == IF t = "z" THEN Ok(ww) ELSE Utimes(ww, p, t)
UpdateMetaUnix(ww, p, mode, t) ==
  LET a == UpdateModTime(ww, p, t)
  IN IF a.e # "" THEN a ELSE IF mode = 0 THEN a ELSE Chmod(a.w, p, mode)

\* one deferred directory update
ApplyDeferred(ww, m, devs) ==
  IF "Dev_C38_DeferredMetaByPath" \in devs THEN UpdateMetaUnix(ww, m.path, m.mode, m.t)
  ELSE LET st == Lstat(ww.fs, m.path)
       IN IF st.e # "" THEN Er(ww, st.e)
          ELSE IF st.n.k # "dir" THEN Ok(ww)        \* replaced by a later entry: that entry's metadata stands
          ELSE UpdateMetaUnix(ww, m.path, m.mode, m.t)

\* Extractor.deferUpdate: skip if nothing to set; apply the previous deferral early when leaving its subtree
\* (len(path) < len(prev.path) and prev.path has the new path's parent as prefix); then push.
\* All name components have length 1, so string length/prefix = component count/prefix.
DeferUpdate(ww, p, h, devs) ==
  IF h.mode = 0 /\ h.t = "z" THEN Ok(ww)
  ELSE LET n == Len(ww.defs)
           early == n > 0 /\ Len(p) < Len(ww.defs[n].path) /\ IsPrefix(Parent(p), ww.defs[n].path)
           a == IF early THEN ApplyDeferred(ww, ww.defs[n], devs) ELSE Ok(ww)
       IN IF a.e # "" THEN a
          ELSE LET kept == IF early THEN SubSeq(a.w.defs, 1, n - 1) ELSE a.w.defs
               IN Ok([a.w EXCEPT !.defs = Append(kept, [path |-> p, mode |-> h.mode, t |-> h.t])])

\* doUpdates (deferred function of Extract): newest first, stop at the first error, error dropped
RECURSIVE DoUpdates(_, _, _)
DoUpdates(ww, i, devs) ==
  IF i = 0 THEN [ww EXCEPT !.defs = <<>>]
  ELSE LET a == ApplyDeferred(ww, ww.defs[i], devs)
       IN IF a.e # "" THEN a.w ELSE DoUpdates(a.w, i - 1, devs)

ExtractDir(ww, p) ==
  LET a == MkdirAll(ww, p)
  IN IF a.e # "" THEN a
     ELSE LET st == Lstat(a.w.fs, p)
          IN IF st.e # "" THEN Er(a.w, st.e)
             ELSE IF st.n.k # "dir" THEN Er(a.w, "dirsym")           \* errExtractedDirToSymlink
             ELSE a

ExtractSymlink(ww, p, h) ==
  LET a == Remove(ww, p)
  IN IF a.e \notin {"", "ENOENT"} THEN a
     ELSE LET b == Symlink(a.w, h.link, p)
          IN IF b.e # "" THEN b ELSE UpdateModTime(b.w, p, h.t)

ExtractFile(ww, p, h) ==
  LET a == Remove(ww, p)
  IN IF a.e \notin {"", "ENOENT"} THEN a
     ELSE LET b == CreateTemp(a.w, Parent(p), h.c)
          IN IF b.e # "" THEN b
             \* the archive breaks off inside the body: copyWithProgress fails, the temporary file is removed
             ELSE IF h.c = "trunc" THEN Er(Remove(b.w, Append(Parent(p), TMP)).w, "trunc")
             ELSE LET c == Rename(b.w, Append(Parent(p), TMP), p)
                  IN IF c.e = "" THEN c
                     ELSE Er(Remove(b.w, Append(Parent(p), TMP)).w, c.e)

\* the type switch shared by the first and the later entries
ExtractBody(ww, out, h, devs) ==
  CASE h.type = "dir"  -> LET a == ExtractDir(ww, out)
                          IN IF a.e # "" THEN a ELSE DeferUpdate(a.w, out, h, devs)
    [] h.type = "file" -> LET a == ExtractFile(ww, out, h)
                          IN IF a.e # "" THEN a ELSE UpdateMetaUnix(a.w, out, h.mode, h.t)
    [] h.type = "link" -> ExtractSymlink(ww, out, h)
    [] OTHER           -> Er(ww, "type")                               \* unrecognized tar header type

\* archive/tar refuses a NUL in a (PAX) path: tarReader.Next() fails before the extractor sees the entry
HasNul(name) == \E i \in 1..Len(name) : name[i] = "z"
BadComp(c) == c \in {"", ".", ".."}

\* validateTarPath + getRelativePath + outputPath: [e, out]
NameCheck(ww, name) ==
  IF HasNul(name) THEN [e |-> "tar", out |-> <<>>]
  ELSE IF ~ww.rootDir THEN [e |-> "root", out |-> <<>>]               \* root not a directory, several entries
  ELSE IF \E i \in 1..Len(name) : BadComp(name[i]) THEN [e |-> "badpath", out |-> <<>>]
  ELSE IF ~(Len(name) >= 2 /\ name[1] = ww.rootName) THEN [e |-> "root", out |-> <<>>]
  ELSE LET rel == Tail(name)
           \* Lstat of every intermediate component T/rel[1..i], i < Len(rel)
           errAt(i) == LET st == Lstat(ww.fs, ww.tgt \o SubSeq(rel, 1, i))
                       IN IF st.e # "" THEN st.e
                          ELSE IF st.n.k = "link" THEN "trav"           \* errTraverseSymlink
                          ELSE IF st.n.k # "dir" THEN "nondir" ELSE ""
           bad == {i \in 1..(Len(rel) - 1) : errAt(i) # ""}
       IN IF bad = {} THEN [e |-> "", out |-> ww.tgt \o rel]
          ELSE [e |-> errAt(CHOOSE i \in bad : \A j \in bad : i <= j), out |-> <<>>]

Fail(ww, e, devs) == [DoUpdates(ww, Len(ww.defs), devs) EXCEPT !.err = e, !.done = TRUE]
After(r, devs) == IF r.e # "" THEN Fail(r.w, r.e, devs) ELSE [r.w EXCEPT !.n = @ + 1]

\* the first header.  A header that cannot be read makes Extract return before doUpdates is installed; after
\* that the list of deferred updates is reset -- whatever an earlier call on this Extractor value left in it
FailEarly(ww, e) == [ww EXCEPT !.err = e, !.done = TRUE]
StepFirst(w0, h, devs) ==
  IF HasNul(h.name) THEN FailEarly(w0, "tar")
  ELSE LET ww == IF "Ctl_KeepDeferred" \in devs THEN w0 ELSE [w0 EXCEPT !.defs = <<>>]
           tg == ww.tgt
       IN IF Len(h.name) > 1 \/ BadComp(h.name[1]) THEN Fail(ww, "root", devs)
          ELSE LET w1 == [ww EXCEPT !.rootName = h.name[1]]
               IN CASE h.type = "dir" -> After(ExtractBody([w1 EXCEPT !.rootDir = TRUE], tg, h, devs), devs)
                    [] h.type \in {"file", "link"} ->
                         LET st == Lstat(w1.fs, tg)
                         IN IF st.e \notin {"", "ENOENT"} THEN Fail(w1, st.e, devs)
                            ELSE After(ExtractBody(w1, IF st.e = "" /\ st.n.k = "dir" THEN Append(tg, h.name[1]) ELSE tg,
                                                   h, devs), devs)
                    [] OTHER -> Fail(w1, "type", devs)
\* every later header
StepMore(ww, h, devs) ==
  LET nc == NameCheck(ww, h.name)
  IN IF nc.e # "" THEN Fail(ww, nc.e, devs) ELSE After(ExtractBody(ww, nc.out, h, devs), devs)
Step(ww, h, devs) == IF ww.n = 0 THEN StepFirst(ww, h, devs) ELSE StepMore(ww, h, devs)
\* end of archive
Finish(ww, devs) == IF ww.n = 0 THEN [ww EXCEPT !.err = "empty", !.done = TRUE]
                    ELSE [DoUpdates(ww, Len(ww.defs), devs) EXCEPT !.done = TRUE]

-----------------------------------------------------------------------------
(* ---------- initial file systems ---------- *)
Base == (Root :> Dir(M755, "p")) @@ (W :> Dir(M755, "p")) @@
        (<<"o">> :> Dir(M755, "p")) @@ (<<"o", "f">> :> File("F", M644, "p")) @@ (<<"o", "d">> :> Dir(M755, "p"))
TA == Append(T, "a")
TB == Append(T, "b")
InitFS(v) ==
  CASE v = "fresh"   -> Base
    [] v = "links"   -> Base @@ (T :> Dir(M755, "p")) @@ (TA :> Link("abs_o", "p")) @@ (TB :> Link("abs_of", "p"))
    [] v = "tree"    -> Base @@ (T :> Dir(M755, "p")) @@ (TA :> Dir(M755, "p")) @@
                        (Append(TA, "b") :> Link("up2_o", "p")) @@ (TB :> File("B", M644, "p"))
    [] v = "uplink"  -> Base @@ (T :> Dir(M755, "p")) @@ (TA :> Link("up2_o", "p")) @@ (TB :> Link("rel_a", "p"))
    [] v = "tlink"   -> Base @@ (T :> Link("abs_o", "p"))
    [] v = "tfile"   -> Base @@ (T :> File("B", M644, "p"))
NewRun(v) == [fs |-> InitFS(v), tch |-> {}, defs |-> <<>>, rootDir |-> FALSE, rootName |-> "", n |-> 0,
              err |-> "", done |-> FALSE, tgt |-> T, call |-> 1]

(* the next Extract call on the same Extractor value: the deferred updates it holds survive (nothing else does);
   before it the owner of the previous target has changed mode and mtime of every object at or below it      *)
Age(n) == CASE n.k = "dir"  -> [n EXCEPT !.m = M711, !.t = "q"]
            [] n.k = "file" -> [n EXCEPT !.m = M640, !.t = "q"]
            [] OTHER        -> [n EXCEPT !.t = "q"]
AgeFS(fs, t) == [p \in DOMAIN fs |-> IF IsPrefix(t, p) THEN Age(fs[p]) ELSE fs[p]]
Again(ww, t) == [fs |-> AgeFS(ww.fs, ww.tgt), tch |-> {}, defs |-> ww.defs, rootDir |-> FALSE, rootName |-> "", n |-> 0,
                 err |-> "", done |-> FALSE, tgt |-> t, call |-> ww.call + 1]

-----------------------------------------------------------------------------
(* ---------- entries ---------- *)
Hdr(name, type, link, mode, t) == [name |-> name, type |-> type, link |-> link, mode |-> mode, t |-> t, c |-> "X"]
Bodies(name) ==
  {Hdr(name, "dir", "", mt[1], mt[2]) : mt \in DirMeta}
  \cup {[Hdr(name, "file", "", mt[1], mt[2]) EXCEPT !.c = c] : mt \in DirMeta, c \in Reuse.contents}   \* "X", "trunc"
  \cup {Hdr(name, "link", l, 0, t) : l \in LinkTargets, t \in LinkTimes}
  \cup {Hdr(name, "other", "", 0, "z")}
\* an entry that the extractor must refuse on its name alone is offered with the bodies that would do most
\* harm if it were not refused
HarmBodies(name) == {h \in {Hdr(name, "dir", "", M700, "t1"), Hdr(name, "file", "", M700, "t1"),
                             Hdr(name, "link", "abs_o", 0, "t1")} : h.type \in HarmTypes}

Refused(ww, name) == IF ww.n = 0 THEN HasNul(name) \/ Len(name) > 1 \/ BadComp(name[1])
                     ELSE NameCheck(ww, name).e # ""
\* the calls after the first get short archives of entries that carry metadata
LaterBodies(name) == {h \in {Hdr(name, "dir", "", M700, "t1"), Hdr(name, "file", "", M700, "t1"),
                              Hdr(name, "link", "abs_o", 0, "t1")} : h.type \in Reuse.types}
Offer(ww) == IF ww.call = 1
             THEN UNION {IF Refused(ww, name) THEN HarmBodies(name) ELSE Bodies(name) : name \in Names}
             ELSE UNION {LaterBodies(name) : name \in Reuse.names}
MaxEntriesAt(ww) == IF ww.call = 1 THEN MaxEntries ELSE Reuse.max

-----------------------------------------------------------------------------
Init == /\ \E v \in Variants : w = NewRun(v) /\ fs0 = InitFS(v)
Entry == /\ ~w.done /\ w.n < MaxEntriesAt(w)
         /\ \E h \in Offer(w) : w' = Step(w, h, Devs)
         /\ UNCHANGED fs0
End == /\ ~w.done
       /\ w' = Finish(w, Devs)
       /\ UNCHANGED fs0
ReuseX == /\ w.done /\ w.call < Reuse.calls
          /\ \E t \in Reuse.targets : w' = Again(w, t) /\ fs0' = AgeFS(w.fs, w.tgt)
Next == Entry \/ End
Spec == Init /\ [][Next]_vars                 \* one Extract call on a fresh Extractor value
NextReuse == Entry \/ End \/ ReuseX
SpecReuse == Init /\ [][NextReuse]_vars       \* Reuse.calls Extract calls on one Extractor value

-----------------------------------------------------------------------------
(* ---------- the property ---------- *)
\* with respect to the target of the CURRENT call
Inside(p) == IsPrefix(w.tgt, p)
\* everything that is not at or below the target; creating/replacing the target itself necessarily updates its parent's mtime
Outside(fs) == [p \in {q \in DOMAIN fs : ~Inside(q)} |-> IF p = Parent(w.tgt) THEN [fs[p] EXCEPT !.t = "-"] ELSE fs[p]]

Confined      == Outside(w.fs) = Outside(fs0)
NoStrayTouch  == \A p \in w.tch : Inside(p) \/ p = Append(Parent(w.tgt), TMP)
NoTempLeft    == \A p \in DOMAIN w.fs : Last(<<"">> \o p) # TMP
\* an extraction that reports success has applied (or dropped) every deferred update
DoneClean     == w.done /\ w.err = "" => w.defs = <<>>
\* once a call has got past its first header, every update the Extractor value holds belongs to THIS call's target
DefsInside    == w.n > 0 => \A i \in 1..Len(w.defs) : Inside(w.defs[i].path)
WellFormed    == \A p \in DOMAIN w.fs : p = Root \/ (Parent(p) \in DOMAIN w.fs /\ w.fs[Parent(p)].k = "dir")
=============================================================================
