---------------------------- MODULE GenAppendCfg ----------------------------
(* Phase G of C08 over the CID-builder configuration space and both entry points (see UnixFSFile,
   "CID layer and DAG service").  Two families, one TLC run:

   * the (w, leaf kind, n, m, short last chunks) product of GenUnixFSFile!AppendCases, each case now also
     carrying a CID builder and an entry point.  The product with 4 builders x 2 entries is not affordable,
     so they are spread deterministically: the builder rotates with the base (n + w), the entry with the
     append (n + 2m + w); every builder and both entries occur for every width and at every depth.
   * the identity family: identity builder x both entries x chunk sizes around the inlining limit
     (IdChunks: a leaf far below the limit, one just below it, one above it) x small (n, m): that is where
     nodes switch from inlined to hashed CIDs -- branch nodes first (small widths), then the leaves.
     The base of an identity case is itself grown from the empty identity file through the modifier entry
     (the importer has no fallback, it cannot build an identity file over the limit).

   A DagModifier returns a file that is one raw leaf without its File node ("Raw Leaf Collapsing"); such
   results are not trickle DAGs and belong to C10: the modifier entry is not used when the result has a
   single raw leaf.                                                                                      *)
EXTENDS GenUnixFSFile
CONSTANTS IdN, IdM,            \* identity family: n <= IdN base chunks, 1..IdM appended chunks
          IdChunks,            \* chunk sizes of the identity family
          IdMod                \* 1/IdMod sample of the identity family (Salt-dependent); 1 = all

CB4 == <<"v0", "sha2-256", "blake2b-256", "sha3-256">>
SingleRawLeaf(c) == c.lk = "raw" /\ c.n + c.m = 1
MainCases == {[w |-> c.w, lk |-> c.lk, n |-> c.n, m |-> c.m, short |-> c.short, short2 |-> c.short2, cs |-> ChunkSz,
               cb  |-> CB4[((c.n + c.w) % 4) + 1],
               via |-> IF (c.n + 2 * c.m + c.w) % 3 = 0 /\ ~SingleRawLeaf(c) THEN "modifier" ELSE "trickle"] : c \in AppendCases}
IdCases == {c \in [w : GWidths, lk : {"raw", "pb"}, n : 0..IdN, m : 1..IdM, short : {FALSE}, short2 : BOOLEAN, cs : IdChunks,
                   cb : {"identity"}, via : Entries] :
              /\ ~(c.via = "modifier" /\ SingleRawLeaf(c))
              /\ ~(c.lk = "raw" /\ c.n = 1)                 \* (the base itself would be a single raw leaf grown by the modifier)
              /\ c.short2 => (c.n + c.m) % 3 = 0
              /\ (c.n * 61 + c.m * 7 + c.w + c.cs + Salt) % IdMod = 0}

SizesC(n, short, cs) == [i \in 1..n |-> IF i = n /\ short THEN 1 ELSE cs]
CfgExpected(c) ==
    LET bsz == SizesC(c.n, c.short, c.cs) nsz == SizesC(c.m, c.short2, c.cs) IN
    [kind |-> "append", w |-> c.w, lk |-> c.lk, bsz |-> bsz, nsz |-> nsz, L |-> Sum(bsz), L2 |-> Sum(nsz),
     leaves |-> (IF c.n = 0 THEN <<>> ELSE bsz) \o nsz, cs |-> c.cs, cb |-> c.cb, via |-> c.via]

AllCases == MainCases \cup IdCases
CNext == stage = 0 /\ stage' = 1 /\ case' \in {c \in AllCases : Bucket(c) = case.g} /\ UNCHANGED files
CSpec == GInit /\ [][CNext]_gvars
CEmit == stage = 0 \/ PrintT(<<"BEHAVIOUR", ToJson(CfgExpected(case))>>)
=============================================================================
