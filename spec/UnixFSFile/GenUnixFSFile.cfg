SPECIFICATION GSpec
CONSTANTS MaxN = 0
          Widths = {2}
          ChunkSz = 4
          MaxFiles = 0
          Kind = "import"
          GN = 40
          GM = 0
          GWidths = {2, 3, 4, 5}
          PartSel = 0
          SmallN = 40
          SmallM = 0
          Small2N = 0
          Small2M = 0
          SmallW = 5
          SampleMod = 1
          Salt = 0
INVARIANTS Emit
