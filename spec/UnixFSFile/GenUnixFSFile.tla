---------------------------- MODULE GenUnixFSFile ----------------------------
(* Phase G: class-product enumeration.  Every initial state is one case; the expected observable
   is computed by the operators of UnixFSFile and printed once per case.

   Kind = "import" (C07): (layout, w, leaf kind, n chunks, short last chunk?, mode/mtime requested?)
        -> the ideal tree, and where an open finding describes different as-built behaviour, that
           alternative with its deviation name.
   Kind = "append" (C08): (w, leaf kind, n base chunks, m appended chunks, short last chunks?)
        -> chunk sizes, lengths, leaf count; the appended tree itself is NOT prescribed (C08 only
           demands AppendOK), the harness sends the projected trees back for TraceUnixFSFile. *)
EXTENDS UnixFSFile
CONSTANTS Kind, GN, GM, GWidths,
          SmallN, SmallM, SmallW,    \* the exhaustive core of the case space: n <= SmallN, m <= SmallM for w <= SmallW,
          Small2N, Small2M,          \* n <= Small2N, m <= Small2M for every w ...
          SampleMod, Salt,           \* ... and a 1/SampleMod sample of the rest (SampleMod = 1: everything)
          PartSel                    \* residue (mod 7) of the append cases that also get short last chunks
VARIABLES stage, case
gvars == <<files, stage, case>>
Groups == 16       \* initial states; their successors (the cases) are expanded by parallel TLC workers

Sizes(n, short) == [i \in 1..n |-> IF i = n /\ short THEN 1 ELSE ChunkSz]
Sampled(x) == (x + Salt) % SampleMod = 0

\* quick tier: all (layout, w, leaf kind, n) plain; the short-last-chunk / metadata variants for n <= SmallN and a sample
ImportCases == {c \in [layout : {"bal", "tri"}, w : GWidths, lk : {"raw", "pb"}, n : 0..GN, short : BOOLEAN, meta : BOOLEAN] :
                  /\ c.n = 0 => ~c.short
                  /\ (c.short \/ c.meta) => (c.n <= SmallN \/ Sampled(c.n + 3 * c.w))}
AppendCases == {c \in [w : GWidths, lk : {"raw", "pb"}, n : 0..GN, m : 1..GM, short : BOOLEAN, short2 : BOOLEAN] :
                  /\ c.n = 0 => ~c.short
                  /\ \/ (c.n <= SmallN /\ c.m <= SmallM /\ c.w <= SmallW)
                     \/ (c.n <= Small2N /\ c.m <= Small2M)
                     \/ Sampled(c.n * 61 + c.m * 7 + c.w)
                  /\ (c.short \/ c.short2) => (c.n + 2 * c.m + c.w) % 7 = PartSel}

ImportExpected(c) ==
    LET P    == [w |-> c.w, lk |-> c.lk, sz |-> Sizes(c.n, c.short)]
        t    == LayoutOf(c.layout, P, c.meta)
        ab   == IF c.layout = "bal" /\ c.meta THEN BalancedLayoutAsBuilt(P, c.meta) ELSE t
    IN  [kind |-> "import", layout |-> c.layout, w |-> c.w, lk |-> c.lk, sz |-> P.sz, meta |-> c.meta, L |-> Sum(P.sz),
         tree |-> t,
         also |-> IF c.layout = "bal" THEN SetToSeq(BalancedAlso(P, c.meta)) ELSE <<>>,      \* other acceptable trees
         alt  |-> IF ab = t THEN <<>> ELSE <<[dev |-> "Dev_C07_RawRootDropsMeta", tree |-> ab]>>]
AppendExpected(c) ==
    LET bsz == Sizes(c.n, c.short) nsz == Sizes(c.m, c.short2) IN
    [kind |-> "append", w |-> c.w, lk |-> c.lk, bsz |-> bsz, nsz |-> nsz, L |-> Sum(bsz), L2 |-> Sum(nsz),
     leaves |-> (IF c.n = 0 THEN <<>> ELSE bsz) \o nsz]

CaseSet == IF Kind = "import" THEN ImportCases ELSE AppendCases
Bucket(c) == (c.n + 3 * c.w + (IF c.lk = "raw" THEN 7 ELSE 0)) % Groups
GInit == files = <<>> /\ stage = 0 /\ case \in {[g |-> k] : k \in 0..(Groups - 1)}
GNext == stage = 0 /\ stage' = 1 /\ case' \in {c \in CaseSet : Bucket(c) = case.g} /\ UNCHANGED files
GSpec == GInit /\ [][GNext]_gvars
Emit == stage = 0 \/ PrintT(<<"BEHAVIOUR", ToJson(IF Kind = "import" THEN ImportExpected(case) ELSE AppendExpected(case))>>)
=============================================================================
