SPECIFICATION GSpec
CONSTANTS MaxN = 0
          Widths = {2}
          ChunkSz = 4
          MaxFiles = 0
          Kind = "append"
          GN = 60
          GM = 60
          GWidths = {2, 3, 4}
          PartSel = 0
          SmallN = 60
          SmallM = 60
          Small2N = 0
          Small2M = 0
          SmallW = 4
          SampleMod = 1
          Salt = 0
INVARIANTS Emit
