SPECIFICATION Spec
CONSTANTS MaxN = 6
          Widths = {2, 3}
          ChunkSz = 4
          MaxFiles = 2
          DeepN = {51}
INVARIANTS AllFilesOK AppendPreserves AppendEqualsFresh
CHECK_DEADLOCK FALSE
