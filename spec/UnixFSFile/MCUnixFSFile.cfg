SPECIFICATION Spec
CONSTANTS MaxN = 6
          Widths = {2, 3}
          ChunkSz = 4
          MaxFiles = 2
          DeepN = {51}
          DeepM = {1, 7}
INVARIANTS AllFilesOK AppendPreserves AppendEqualsFresh
CHECK_DEADLOCK FALSE
