---------------------------- MODULE MCUnixFSFile ----------------------------
(* Phase M wrapper: the state machine of UnixFSFile over small constants, plus constant-level
   checks of the layout constructions at sizes where the trickle DAG is 3 and 4 levels deep
   (w = 2: more than 50 / 250 chunks) and the balanced DAG 6 levels deep. *)
EXTENDS UnixFSFile
CONSTANT DeepN
ASSUME \A n \in DeepN, w \in {2, 3} : LayoutsOK(n, w)
ASSUME \A n \in {50, 51, 53} : \A m \in {1, 7, 200} :
         LET P == [w |-> 2, lk |-> "pb", sz |-> [i \in 1..n |-> ChunkSz]]
             Q == [P EXCEPT !.sz = [i \in 1..m |-> ChunkSz]]
             R == [P EXCEPT !.sz = [i \in 1..(n + m) |-> ChunkSz]]
         IN  IdealAppend(TrickleLayout(P, FALSE), Q) = TrickleLayout(R, FALSE)
=============================================================================
