---------------------------- MODULE MCUnixFSFile ----------------------------
(* Phase M wrapper: the state machine of UnixFSFile over small constants, plus constant-level
   checks of the layout constructions at sizes where the trickle DAG is 3 and 4 levels deep
   (w = 2: more than 50 / 250 chunks) and the balanced DAG 6 levels deep. *)
EXTENDS UnixFSFile
CONSTANTS DeepN, DeepM
ASSUME \A n \in DeepN, w \in {2, 3} : LayoutsOK(n, w)
ASSUME \A n \in {50, 51, 53} : \A m \in DeepM :
         LET P == [w |-> 2, lk |-> "pb", sz |-> [i \in 1..n |-> ChunkSz]]
             Q == [P EXCEPT !.sz = [i \in 1..m |-> ChunkSz]]
             R == [P EXCEPT !.sz = [i \in 1..(n + m) |-> ChunkSz]]
         IN  IdealAppend(TrickleLayout(P, FALSE), Q) = TrickleLayout(R, FALSE)

(* The transcription of the as-built Append (deviation Dev_C08_AppendTooDeep): it always keeps sizes
   and content right, and it breaks the depth rule only when the base ends on a layer boundary --
   e.g. w = 2: one chunk + 4 appended, while 3 chunks (one sub-trickle started) + 4 appended is fine. *)
PB(n) == [w |-> 2, lk |-> "pb", sz |-> [i \in 1..n |-> ChunkSz]]
ASSUME /\ ~TrickleShapeOK(AsBuiltAppend(TrickleLayout(PB(1), FALSE), PB(4)), 2, "pb")
       /\ TrickleShapeOK(AsBuiltAppend(TrickleLayout(PB(3), FALSE), PB(4)), 2, "pb")
ASSUME \A n \in 0..11, m \in {1, 3, 5, 11, 12} :
         LET b == TrickleLayout(PB(n), FALSE)
             t == AsBuiltAppend(b, PB(m))
         IN  /\ AppendContentOK(b, t, m * ChunkSz)
             /\ LeafSizes(t) = [i \in 1..(n + m) |-> ChunkSz]
             /\ (~TrickleShapeOK(t, 2, "pb") => OnLayerBoundary(b, 2))

(* CID layer (C08): the predicates accept the regular CID kinds of every builder, and reject a dangling link, an
   identity CID over the digest limit, a hash the builder does not allow; only a plain DAG service under the
   identity builder may refuse an append, and only if the DAG really holds a node it cannot store. *)
CN(k, cv, hk, el, ch) == [k |-> k, cv |-> cv, hk |-> hk, el |-> el, ch |-> ch]
ASSUME LET small == CN("pb", 1, "identity", 108, <<>>)
           big   == CN("pb", 1, "sha2-256", 211, <<>>)
           gone  == CN("missing", 1, "identity", -1, <<>>)
           over  == CN("in", 1, "identity", 299, <<small>>)
       IN  /\ StoreOK(CN("in", 1, "sha2-256", 299, <<small, big>>), "identity")
           /\ Resolves(over) /\ ~AllCidOK(over, "identity")
           /\ ~Resolves(CN("in", 1, "sha2-256", 299, <<small, gone>>))
           /\ ~AllCidOK(CN("in", 1, "blake2b-256", 299, <<small>>), "identity")
           /\ StoreOK(CN("in", 0, "sha2-256", -1, <<CN("raw", 1, "sha2-256", -1, <<>>)>>), "v0")
           /\ ~AllCidOK(CN("in", 1, "sha2-256", -1, <<CN("raw", 1, "sha2-256", -1, <<>>)>>), "v0")
           /\ \A cb \in CidBuilders \ {"v0", "identity"} :
                 StoreOK(CN("in", 1, cb, -1, <<CN("pb", 1, cb, -1, <<>>)>>), cb) /\ ~AllCidOK(CN("pb", 1, "identity", 4, <<>>), cb)
           /\ MayRefuse("identity", "trickle", over) /\ ~MayRefuse("identity", "modifier", over)
           /\ ~MayRefuse("sha2-256", "trickle", over) /\ ~MayRefuse("identity", "trickle", CN("in", 1, "identity", 104, <<small>>))
           /\ ~MayRefuse("identity", "trickle", CN("in", 1, "identity", 299, <<gone>>))
=============================================================================
