SPECIFICATION Spec
CONSTANTS MaxN = 8
          Widths = {2, 3, 4}
          ChunkSz = 4
          MaxFiles = 3
          DeepN = {51, 64, 127, 260, 700, 1300}
          DeepM = {1, 7, 200}
INVARIANTS AllFilesOK AppendPreserves AppendEqualsFresh
CHECK_DEADLOCK FALSE
