SPECIFICATION TSpec
CONSTANTS MaxN = 0
          Widths = {2}
          ChunkSz = 4
          MaxFiles = 0
          Devs = @DEVS@
INVARIANTS StoredFilesChecked DevReport
CONSTRAINT TraceConstraint
POSTCONDITION TracePost
CHECK_DEADLOCK FALSE
