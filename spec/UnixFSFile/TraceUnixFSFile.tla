--------------------------- MODULE TraceUnixFSFile ---------------------------
(* Phase T: a log of the real importer (NDJSON) must be a behaviour of UnixFSFile in which every
   imported / appended DAG -- projected to a tree by the harness -- satisfies the property.

   Events (handles h are a few re-usable slots):
     Reset                                                  forget all files
     Import   h layout w leaf mode mtime csz L tree rb rsize gmode gmtime vt cid
              csz > 0: fixed-size chunker of that size (the leaf sizes are then prescribed), 0: content-defined
              rb: DagReader returned exactly the input; rsize/gmode/gmtime: what the reader reports
              vt: error text of the code's own VerifyTrickleDagStructure ("" = none; "-" for balanced)
     Reimport h cid                                         the same input and parameters imported again
     Append   from h csz L2 tree rb rsize vt cb via         append of L2 more bytes to file `from`, hashed with CID builder cb,
              reached via "trickle" (trickle.Append on a plain DAG service) or "modifier" (DagModifier append); the tree is
              re-read from the DAG service by CID: a link the service cannot resolve is a node k = "missing"; nodes carry
              cv / hk when they differ from the builder's regular CID kind, and el (block length) under the identity builder
     AppendRefused from csz L2 cb via errc wtree wrb baseok the append returned an error (errc: "toolarge" = identity digest
              over the limit | "other"); wtree/wrb: the same append repeated on a copy of the store whose DAG service accepts
              every CID (the DAG that was being built), baseok: the base file still reads back in full afterwards
   Trees arrive in compact form (defaults omitted) and are normalised by Norm.                     *)
EXTENDS UnixFSFile
CONSTANT Devs

Trace == ndJsonDeserialize("trace.ndjson")
VARIABLES l, dev, cids
tvars == <<files, l, dev, cids>>
ASSUME TLCSet(1, 0)

Slots == 0..3
Ev == Trace[l]
IsEvent(e) == l <= Len(Trace) /\ Trace[l].ev = e /\ l' = l + 1
\* a failed conjunct names itself (the runner quotes it in the VIOLATION line)
Chk(name, cond) == IF cond THEN TRUE ELSE (PrintT(<<"CHECK_FAILED", name, l>>) /\ FALSE)
\* (IF, not \/: TLC explores every disjunct of an action, it would print unconditionally)

RECURSIVE Norm(_)
Norm(t) == LET d == DOMAIN t IN
           [k  |-> t.k, s |-> t.s, o |-> t.o,
            bs |-> IF "bs" \in d THEN t.bs ELSE <<>>,
            ch |-> IF "ch" \in d THEN TLCEval([i \in 1..Len(t.ch) |-> Norm(t.ch[i])]) ELSE <<>>,   \* TLCEval: an explicit sequence, not a lazy function
            ty |-> IF "ty" \in d THEN t.ty ELSE IF t.k = "raw" THEN "none" ELSE "file",
            dl |-> IF "dl" \in d THEN t.dl ELSE IF t.k = "in" THEN 0 ELSE t.s,
            md |-> IF "md" \in d THEN t.md ELSE 0]

\* the CID-layer view of the same projected tree (UnixFSFile, "CID layer and DAG service")
RECURSIVE NormC(_, _)
NormC(t, cb) == LET d == DOMAIN t IN
           [k  |-> t.k,
            cv |-> IF "cv" \in d THEN t.cv ELSE DefCv(cb, t.k),
            hk |-> IF "hk" \in d THEN t.hk ELSE DefHk(cb, t.k),
            el |-> IF "el" \in d THEN t.el ELSE -1,
            ch |-> IF "ch" \in d THEN TLCEval([i \in 1..Len(t.ch) |-> NormC(t.ch[i], cb)]) ELSE <<>>]

\* chunk sizes a fixed-size chunker must produce for L bytes
FixedSizes(L, c) == [i \in 1..((L + c - 1) \div c) |-> IF i * c <= L THEN c ELSE L - (i - 1) * c]
ZeroTime == <<0, 0>>

TInit == l = 1 /\ files = [h \in Slots |-> NoFile] /\ dev = {} /\ cids = [h \in Slots |-> ""]

TReset == IsEvent("Reset") /\ files' = [h \in Slots |-> NoFile] /\ cids' = [h \in Slots |-> ""] /\ UNCHANGED dev

(* TLC does not cache LET definitions while it expands an ACTION, so everything that is decided about
   an event is computed by a constant-level operator (XxxResult, LETs cached) whose value
   [ok, rec, dev] is then applied to the state by a small action.                                  *)

\* FileOK (the module invariant for one file), with the failing conjunct named when it does not hold
FileChecks(f) ==
    IF FileOK(f) THEN TRUE
    ELSE /\ Chk("leaf sizes = chunks of the input", LeafSizes(f.tree) = (IF f.fresh = <<>> THEN <<0>> ELSE f.fresh))
         /\ Chk("WellFormed (sizes)", WellFormed(f.tree))
         /\ Chk("Content = input", ContentOK(f.tree, Sum(f.fresh)))
         /\ Chk("only the root carries mode/mtime, iff requested", MetaOK(f.tree, f.meta))
         /\ Chk("shape rule", IF f.layout = "bal" THEN BalancedShapeOK(f.tree, f.w) ELSE f.dv \/ TrickleShapeOK(f.tree, f.w, f.lk))
         /\ Chk("leaf kind", IsLeaf(f.tree) \/ LeafKindOK(f.tree, f.lk, LeafTy(f.layout)))
         /\ FALSE

ImportResult(e) ==
    LET t    == Norm(e.tree)
        sz   == IF e.L = 0 THEN <<>> ELSE IF e.csz > 0 THEN FixedSizes(e.L, e.csz) ELSE LeafSizes(t)
        P    == [w |-> e.w, lk |-> e.leaf, sz |-> sz]
        meta == e.mode # 0 \/ e.mtime # ZeroTime
        rec(m) == [live |-> TRUE, tree |-> t, w |-> e.w, lk |-> e.leaf, layout |-> e.layout, meta |-> m,
                   fresh |-> sz, base |-> 0, dv |-> FALSE]
        pre  == e.h \in Slots /\ e.layout \in {"bal", "tri"} /\ e.leaf \in {"raw", "pb"} /\ Sum(sz) = e.L
        obs  == /\ Chk("reader returns the input and its length", e.rb /\ e.rsize = e.L)
                /\ Chk("VerifyTrickleDagStructure agrees", e.layout = "tri" => e.vt = "")
        ideal == /\ Chk("layout = documented layout", t = LayoutOf(e.layout, P, meta) \/ (e.layout = "bal" /\ t \in BalancedAlso(P, meta)))
                 /\ FileChecks(rec(meta))
                 /\ Chk("reader reports the requested mode/mtime", e.gmode = e.mode /\ e.gmtime = e.mtime)
        \* open finding: balanced + raw leaves + at most one chunk + metadata => bare raw root, metadata lost
        asbuilt == /\ "Dev_C07_RawRootDropsMeta" \in Devs
                   /\ e.layout = "bal" /\ e.leaf = "raw" /\ meta /\ Len(sz) <= 1
                   /\ t = BalancedLayoutAsBuilt(P, meta) /\ e.gmode = 0 /\ e.gmtime = ZeroTime
                   /\ FileChecks(rec(FALSE))
    IN  IF ~(pre /\ obs) THEN [ok |-> FALSE]
        ELSE IF ideal THEN [ok |-> TRUE, h |-> e.h, rec |-> rec(meta), dev |-> {}, cid |-> e.cid]
        ELSE IF asbuilt THEN [ok |-> TRUE, h |-> e.h, rec |-> rec(FALSE), dev |-> {"Dev_C07_RawRootDropsMeta"}, cid |-> e.cid]
        ELSE [ok |-> FALSE]

AppendResult(e, b) ==
    LET t   == Norm(e.tree)
        nsz == IF e.csz > 0 THEN FixedSizes(e.L2, e.csz)
               ELSE LET a == LeafSizes(t) IN IF e.L2 = 0 THEN <<>> ELSE SubSeq(a, Len(b.fresh) + 1, Len(a))
        all == b.fresh \o nsz
        rec(d) == [b EXCEPT !.tree = t, !.fresh = all, !.base = 0, !.dv = d]
        ct  == NormC(e.tree, e.cb)
        pre == b.live /\ b.layout = "tri" /\ e.h \in Slots /\ Sum(nsz) = e.L2 /\ e.cb \in CidBuilders /\ e.via \in Entries
        \* the appended file is a DAG in the DAG service, whatever the builder and the entry point
        store ==
           /\ Chk("every link of the appended DAG resolves in the DAG service (no dangling link)", Resolves(ct))
           /\ Chk("every CID is of a kind the builder allows (identity only within the digest limit)", AllCidOK(ct, e.cb))
        common ==
           /\ Chk("leaf sizes = old leaves ++ chunks of the appended bytes", LeafSizes(t) = (IF all = <<>> THEN <<0>> ELSE all))
           /\ Chk("sizes consistent, content = old content ++ new bytes", AppendContentOK(b.tree, t, e.L2))
           /\ Chk("reader returns old ++ new and its length", e.rb /\ e.rsize = b.tree.s + e.L2)
        ideal ==
           /\ Chk("trickle shape rule", TrickleShapeOK(t, b.w, b.lk))
           /\ Chk("VerifyTrickleDagStructure agrees", e.vt = "")
           /\ FileChecks(rec(FALSE))
        \* open finding: the node ended on a layer boundary and Append continues one level too deep
        asbuilt ==
           /\ "Dev_C08_AppendTooDeep" \in Devs
           /\ ~TrickleShapeOK(t, b.w, b.lk) /\ e.vt = "child dag was too deep"
           /\ t = AsBuiltAppend(b.tree, [w |-> b.w, lk |-> b.lk, sz |-> nsz])
           /\ FileChecks(rec(TRUE))
        \* informational (C08 does not demand it): does the append continue the fresh layout?
        fresh == IF t = TrickleLayout([w |-> b.w, lk |-> b.lk, sz |-> all], b.meta) THEN TRUE ELSE PrintT(<<"INFO_NOT_FRESH", l>>)
    IN  IF ~(pre /\ store /\ common) THEN [ok |-> FALSE]
        ELSE IF ideal THEN [ok |-> fresh, h |-> e.h, rec |-> rec(FALSE), dev |-> {}, cid |-> ""]
        ELSE IF asbuilt THEN [ok |-> TRUE, h |-> e.h, rec |-> rec(TRUE), dev |-> {"Dev_C08_AppendTooDeep"}, cid |-> ""]
        ELSE [ok |-> FALSE]

(* An append that returned an error.  Allowed only when the entry point cannot store the DAG (MayRefuse: plain DAG
   service, identity builder, a node over the digest limit); what it was building -- the witness, the same call on a
   DAG service that takes every CID -- must be a correct append, and the base file must be untouched.              *)
RefusedResult(e, b) ==
    LET wt  == Norm(e.wtree)
        wc  == NormC(e.wtree, e.cb)
        nsz == IF e.csz > 0 THEN FixedSizes(e.L2, e.csz)
               ELSE LET a == LeafSizes(wt) IN SubSeq(a, Len(b.fresh) + 1, Len(a))
        all == b.fresh \o nsz
        pre == b.live /\ b.layout = "tri" /\ e.cb \in CidBuilders /\ e.via \in Entries
        witness ==
           /\ Chk("refused append: the DAG being built resolves (witness)", e.wok /\ Resolves(wc))
           /\ Chk("refused append: the DAG being built is old content ++ new bytes (witness)",
                  LeafSizes(wt) = (IF all = <<>> THEN <<0>> ELSE all) /\ AppendContentOK(b.tree, wt, e.L2) /\ e.wrb)
        intact == Chk("a failed append leaves the base file intact", e.baseok)
        ideal == Chk("an append fails only if its DAG service cannot store the DAG (identity digest over the limit, entry without re-hashing)",
                     e.errc = "toolarge" /\ MayRefuse(e.cb, e.via, wc))
        \* open finding: the modifier's identity protection covers dag-pb nodes only; a new RAW leaf over the limit is
        \* handed to the DAG service with its identity CID and the whole append fails
        newRaw == LET ls == LeavesOf(wc) IN \E i \in (Len(b.fresh) + 1)..Len(ls) :
                      ls[i].k = "raw" /\ ls[i].hk = "identity" /\ ls[i].el > IdLimit
        asbuilt == /\ "Dev_C08_IdentityRawLeafRefused" \in Devs
                   /\ e.via = "modifier" /\ e.cb = "identity" /\ b.lk = "raw" /\ e.errc = "toolarge" /\ newRaw
    IN  IF ~(pre /\ witness /\ intact) THEN [ok |-> FALSE]
        ELSE IF asbuilt THEN [ok |-> TRUE, dev |-> {"Dev_C08_IdentityRawLeafRefused"}]
        ELSE IF ideal THEN [ok |-> TRUE, dev |-> {}]
        ELSE [ok |-> FALSE]
ApplyRefused(r) == r.ok /\ dev' = dev \cup r.dev /\ UNCHANGED <<files, cids>>

Apply(r) == /\ r.ok
            /\ files' = [files EXCEPT ![r.h] = r.rec]
            /\ cids' = [cids EXCEPT ![r.h] = r.cid]
            /\ dev' = dev \cup r.dev

TImport == IsEvent("Import") /\ Apply(ImportResult(Ev))
TAppend == IsEvent("Append") /\ Ev.from \in Slots /\ Apply(AppendResult(Ev, files[Ev.from]))

\* "Importing the same input with the same parameters always yields the same root CID"
ReimportOK(e) == files[e.h].live /\ Chk("Deterministic root CID", e.cid = cids[e.h])
TReimport == IsEvent("Reimport") /\ ReimportOK(Ev) = TRUE /\ UNCHANGED <<files, dev, cids>>

TAppendRefused == IsEvent("AppendRefused") /\ Ev.from \in Slots /\ ApplyRefused(RefusedResult(Ev, files[Ev.from]))

TNext == TReset \/ TImport \/ TReimport \/ TAppend \/ TAppendRefused
TSpec == TInit /\ [][TNext]_tvars

TraceConstraint == TLCSet(1, IF l - 1 > TLCGet(1) THEN l - 1 ELSE TLCGet(1))
TracePost == PrintT(<<"TRACE_HWM", TLCGet(1)>>)
DevReport == l <= Len(Trace) \/ \A d \in dev : PrintT(<<"DEV_USED", d>>)
\* FileOK of every stored file is established by the action that stores it (FileChecks); files never change afterwards
StoredFilesChecked == \A h \in Slots : files[h].live => files[h].tree.k \in {"raw", "pb", "in"}
=============================================================================
