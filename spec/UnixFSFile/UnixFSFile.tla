------------------------------ MODULE UnixFSFile ------------------------------
(* C07 / C08 -- UnixFS file DAGs built by the balanced and the trickle importer and extended
   by trickle.Append.

   A file DAG is projected to a TREE of node records (one record per link traversal; shared
   blocks appear once per reference):

     [ k  : "raw" (bare raw block) | "pb" (dag-pb/UnixFS node without links) | "in" (dag-pb/UnixFS node with links),
       s  : the size the node RECORDS for itself (raw: byte length; pb/in: UnixFS Filesize field),
       o  : leaf: offset in the input stream at which the leaf's bytes occur (-1: they do not);
            inner: offset of its first byte,
       bs : UnixFS blocksizes (sequence),          ch : children (sequence of trees, one per link),
       ty : UnixFS type "file" | "raw" | other ; "none" for a bare raw block,
       dl : number of data bytes carried inline (raw block length / UnixFS Data length),
       md : 1 iff the node carries a UnixFS mode or mtime ]

   The documented layouts are written down twice, independently of the Go code:
     * constructively  -- BalancedLayout / TrickleLayout build THE tree for a sequence of chunk sizes,
     * as predicates   -- WellFormed, ContentOK, BalancedShapeOK, TrickleShapeOK (the property text).
   Phase M checks that the constructions satisfy the predicates (and that the ideal append
   continues the fresh layout); phases G/T bind both to the real importer. *)
EXTENDS Integers, Sequences, FiniteSets, TLC, Json, SequencesExt

DepthRepeat == 4          \* sub-trickles per depth layer ("places 4 nodes per layer")
Inf == 1000000            \* depth limit of a trickle root: none

Min2(a, b) == IF a <= b THEN a ELSE b
Sum(s) == FoldSeq(LAMBDA x, acc : x + acc, 0, s)

(* ------------------------------------------------------------------ node constructors *)
RawLeaf(sz, off)     == [k |-> "raw", s |-> sz, o |-> off, bs |-> <<>>, ch |-> <<>>, ty |-> "none", dl |-> sz, md |-> 0]
PbLeaf(sz, off, ty)  == [k |-> "pb",  s |-> sz, o |-> off, bs |-> <<>>, ch |-> <<>>, ty |-> ty,     dl |-> sz, md |-> 0]
Leaf(lk, lty, sz, off) == IF lk = "raw" THEN RawLeaf(sz, off) ELSE PbLeaf(sz, off, lty)

RECURSIVE SizesOf(_)
SizesOf(kids) == IF kids = <<>> THEN <<>> ELSE <<Head(kids).s>> \o SizesOf(Tail(kids))
InnerNode(kids, off) == [k |-> "in", s |-> Sum(SizesOf(kids)), o |-> off, bs |-> SizesOf(kids), ch |-> kids,
                         ty |-> "file", dl |-> 0, md |-> 0]
EmptyFile == PbLeaf(0, 0, "file")      \* a UnixFS File node with no data and no links
WithMeta(t, meta) == IF meta THEN [t EXCEPT !.md = 1] ELSE t

IsLeaf(t) == t.k # "in"

(* A layout request: P = [w : max links, lk : "raw"|"pb" leaves, sz : sequence of chunk sizes] *)

(* ------------------------------------------------------------------ balanced layout
   "all leaves are at the same distance from the root; nodes can have only a maximum number of
   children; ... the DAG is extended by increasing its depth"; data is added left to right; a file
   that fits in one chunk is that single leaf.  Hence for n >= 2 chunks: depth D = least D with
   w^D >= n, and a node of depth d takes consecutive groups of w^(d-1) chunks.                     *)
RECURSIVE CapPow(_, _, _)
CapPow(b, e, cap) == IF e = 0 THEN 1 ELSE Min2(cap, b * CapPow(b, e - 1, cap))     \* min(b^e, cap), no overflow
RECURSIVE BalDepthFrom(_, _, _, _)
BalDepthFrom(d, capacity, n, w) == IF capacity >= n THEN d ELSE BalDepthFrom(d + 1, capacity * w, n, w)
BalDepth(n, w) == BalDepthFrom(0, 1, n, w)

RECURSIVE BalSub(_, _, _, _, _, _), BalKids(_, _, _, _, _, _)
BalSub(d, i, cnt, off, P, lty) ==
    IF d = 0 THEN Leaf(P.lk, lty, P.sz[i], off) ELSE InnerNode(BalKids(d, i, cnt, off, P, lty), off)
BalKids(d, i, cnt, off, P, lty) ==
    IF cnt = 0 THEN <<>>
    ELSE LET g == Min2(cnt, CapPow(P.w, d - 1, cnt))
             c == BalSub(d - 1, i, g, off, P, lty)
         IN  <<c>> \o BalKids(d, i + g, cnt - g, off + c.s, P, lty)

(* meta = a mode or mtime was requested.  Metadata lives in the UnixFS Data of the root, so the
   root must be a UnixFS node whenever metadata is requested: an empty file is then the empty File
   node, a single raw chunk is linked from a File node (exactly what the trickle layout always does). *)
BalancedLayout(P, meta) ==
    LET n == Len(P.sz) IN
    WithMeta(IF n = 0 THEN (IF P.lk = "raw" /\ ~meta THEN RawLeaf(0, 0) ELSE EmptyFile)
             ELSE IF n = 1 THEN (IF P.lk = "raw" /\ meta THEN InnerNode(<<RawLeaf(P.sz[1], 0)>>, 0)
                                 ELSE Leaf(P.lk, "file", P.sz[1], 0))
             ELSE BalSub(BalDepth(n, P.w), 1, n, 0, P, "file"), meta)
\* The documentation does not say how a <= 1-chunk raw-leaf file carries metadata; besides the File node linking the
\* raw leaf, a single dag-pb leaf holding the bytes inline (what the importer does without raw leaves) is accepted too.
BalancedAlso(P, meta) ==
    IF Len(P.sz) <= 1 /\ P.lk = "raw" /\ meta
    THEN {WithMeta(PbLeaf(IF Len(P.sz) = 0 THEN 0 ELSE P.sz[1], 0, "file"), TRUE)} ELSE {}
\* as built (open finding C07-rawroot-meta): the bare raw root is kept and the metadata is dropped
BalancedLayoutAsBuilt(P, meta) ==
    LET n == Len(P.sz) IN
    IF n <= 1 /\ P.lk = "raw" THEN RawLeaf(IF n = 0 THEN 0 ELSE P.sz[1], 0) ELSE BalancedLayout(P, meta)

(* ------------------------------------------------------------------ trickle layout
   "non-leaf nodes are first filled with data leaves, and then incorporate layers of subtrees as
   additional links.  Each layer is a trickle sub-tree and is limited by an increasing maximum
   depth: the first layer can only hold leaves (depth 1), subsequent layers can grow deeper; 4
   nodes per layer."  A sub-trickle of maximum depth d therefore holds w leaves followed by 4
   sub-trickles of depth 1, 4 of depth 2, ... 4 of depth d-1; the root has no depth limit.        *)
RECURSIVE TCap(_, _, _), TCapLayers(_, _, _)
TCapLayers(k, w, cap) == IF k = 0 THEN 0 ELSE Min2(cap, DepthRepeat * TCap(k, w, cap) + TCapLayers(k - 1, w, cap))
TCap(d, w, cap) == IF d <= 1 THEN Min2(cap, w) ELSE Min2(cap, w + TCapLayers(d - 1, w, cap))    \* min(capacity, cap)

RECURSIVE TLeaves(_, _, _, _), TSub(_, _, _, _, _), TSubs(_, _, _, _, _, _)
TLeaves(i, cnt, off, P) ==
    IF cnt = 0 THEN <<>> ELSE <<Leaf(P.lk, "raw", P.sz[i], off)>> \o TLeaves(i + 1, cnt - 1, off + P.sz[i], P)
\* j-th (0-based) sub-trickle child of a node with depth limit d
TSubs(j, d, i, cnt, off, P) ==
    LET dj == (j \div DepthRepeat) + 1 IN
    IF cnt = 0 \/ dj >= d THEN <<>>
    ELSE LET g == Min2(cnt, TCap(dj, P.w, cnt))
             c == TSub(dj, i, g, off, P)
         IN  <<c>> \o TSubs(j + 1, d, i + g, cnt - g, off + c.s, P)
TSub(d, i, cnt, off, P) ==
    LET nl == Min2(cnt, P.w)
        ls == TLeaves(i, nl, off, P)
    IN  InnerNode(ls \o TSubs(0, d, i + nl, cnt - nl, off + Sum(SizesOf(ls)), P), off)
TrickleLayout(P, meta) ==
    WithMeta(IF Len(P.sz) = 0 THEN EmptyFile ELSE TSub(Inf, 1, Len(P.sz), 0, P), meta)

(* ------------------------------------------------------------------ the property, as predicates *)
RECURSIVE ContentLen(_), ContentLenSeq(_)
ContentLenSeq(kids) == IF kids = <<>> THEN 0 ELSE ContentLen(Head(kids)) + ContentLenSeq(Tail(kids))
ContentLen(t) == IF IsLeaf(t) THEN t.dl ELSE ContentLenSeq(t.ch)

\* "Every internal node's recorded size equals the sum of its children's recorded sizes, each
\*  child's recorded size equals that child's content length"
NodeOK(t) ==
    CASE t.k = "raw" -> t.s = t.dl /\ t.bs = <<>> /\ t.ch = <<>> /\ t.ty = "none" /\ t.md = 0
      [] t.k = "pb"  -> t.s = t.dl /\ t.bs = <<>> /\ t.ch = <<>> /\ t.ty \in {"file", "raw"}
      [] t.k = "in"  -> /\ t.ty = "file" /\ t.dl = 0 /\ Len(t.ch) >= 1 /\ Len(t.bs) = Len(t.ch)
                        /\ t.s = Sum(t.bs)
                        /\ \A i \in 1..Len(t.ch) : t.bs[i] = ContentLen(t.ch[i]) /\ t.ch[i].s = t.bs[i]
      [] OTHER -> FALSE
RECURSIVE WellFormed(_)
WellFormed(t) == NodeOK(t) /\ \A i \in 1..Len(t.ch) : WellFormed(t.ch[i])

RECURSIVE LeavesOf(_), LeavesOfSeq(_)
LeavesOfSeq(kids) == IF kids = <<>> THEN <<>> ELSE LeavesOf(Head(kids)) \o LeavesOfSeq(Tail(kids))
LeavesOf(t) == IF IsLeaf(t) THEN <<t>> ELSE LeavesOfSeq(t.ch)
LeafSizes(t) == LET ls == LeavesOf(t) IN [i \in 1..Len(ls) |-> ls[i].dl]

\* "reads back as exactly the input bytes": the leaves, left to right, are consecutive extents of
\* the input that start at 0 and end at L (Content(t) = the concatenation of the leaf extents)
ContentOK(t, L) ==
    LET ls == LeavesOf(t) IN
    /\ ls[1].o = 0
    /\ \A i \in 1..(Len(ls) - 1) : ls[i + 1].o = ls[i].o + ls[i].dl
    /\ ls[Len(ls)].o + ls[Len(ls)].dl = L
    /\ t.s = L

\* only the root may carry mode/mtime
RECURSIVE NoMetaBelow(_)
NoMetaBelow(t) == \A i \in 1..Len(t.ch) : t.ch[i].md = 0 /\ NoMetaBelow(t.ch[i])
MetaOK(t, meta) == t.md = (IF meta THEN 1 ELSE 0) /\ NoMetaBelow(t)

\* balanced: "all leaves at equal depth and at most the DAG width of children per node"
RECURSIVE LeafDepths(_), FanoutOK(_, _)
LeafDepths(t) == IF IsLeaf(t) THEN {0} ELSE {d + 1 : d \in UNION {LeafDepths(t.ch[i]) : i \in 1..Len(t.ch)}}
FanoutOK(t, w) == IsLeaf(t) \/ (Len(t.ch) <= w /\ \A i \in 1..Len(t.ch) : FanoutOK(t.ch[i], w))
LeafKindOK(t, lk, lty) == LET ls == LeavesOf(t) IN \A i \in 1..Len(ls) :
    IF lk = "raw" THEN ls[i].k = "raw" ELSE ls[i].k = "pb" /\ ls[i].ty = lty
BalancedShapeOK(t, w) == Cardinality(LeafDepths(t)) = 1 /\ FanoutOK(t, w)

\* trickle: "the documented depth/repeat structure".  A node with depth limit d: its first w
\* children are data leaves; child number w+j (j = 0,1,...) is a sub-trickle (a File node with
\* links) of depth limit (j div 4)+1, which must be smaller than d.  The root has no limit.
RECURSIVE TNodeOK(_, _, _, _)
TNodeOK(t, d, w, lk) ==
    /\ t.k = "in"
    /\ \A j \in 1..Len(t.ch) :
         IF j <= w THEN IsLeaf(t.ch[j]) /\ LeafKindOK(t.ch[j], lk, "raw")
         ELSE LET dj == ((j - w - 1) \div DepthRepeat) + 1 IN dj < d /\ TNodeOK(t.ch[j], dj, w, lk)
TrickleShapeOK(t, w, lk) == [t EXCEPT !.md = 0] = EmptyFile \/ TNodeOK(t, Inf, w, lk)

(* ------------------------------------------------------------------ ideal append (C08)
   Continue the trickle fill order where the existing tree stops: top up the direct leaves, then
   the last (possibly partial) sub-trickle, then further sub-trickles while the depth limit allows.
   Returns [t |-> new subtree, used |-> chunks consumed].  New leaves always follow all old ones. *)
RECURSIVE AFill(_, _, _, _, _, _)
AFill(t, d, i, cnt, off, P) ==
    LET nch == Len(t.ch) IN
    IF cnt = 0 THEN [t |-> t, used |-> 0]
    ELSE IF nch < P.w THEN
        LET k1   == Min2(cnt, P.w - nch)
            ls   == TLeaves(i, k1, off, P)
            off2 == off + Sum(SizesOf(ls))
            subs == TSubs(0, d, i + k1, cnt - k1, off2, P)
            kids == t.ch \o ls \o subs
        IN  [t |-> [InnerNode(kids, t.o) EXCEPT !.md = t.md], used |-> k1 + Len(LeavesOfSeq(subs))]
    ELSE IF nch = P.w THEN
        LET subs == TSubs(0, d, i, cnt, off, P)
            kids == t.ch \o subs
        IN  [t |-> [InnerNode(kids, t.o) EXCEPT !.md = t.md], used |-> Len(LeavesOfSeq(subs))]
    ELSE
        LET jl   == nch - P.w - 1                                   \* 0-based index of the last sub-trickle
            r    == AFill(t.ch[nch], (jl \div DepthRepeat) + 1, i, cnt, off, P)
            off2 == off + (r.t.s - t.ch[nch].s)
            subs == TSubs(jl + 1, d, i + r.used, cnt - r.used, off2, P)
            kids == SubSeq(t.ch, 1, nch - 1) \o <<r.t>> \o subs
        IN  [t |-> [InnerNode(kids, t.o) EXCEPT !.md = t.md], used |-> r.used + Len(LeavesOfSeq(subs))]
\* P.sz = sizes of the NEW chunks only
IdealAppend(t, P) ==
    IF Len(P.sz) = 0 THEN t
    ELSE AFill(IF IsLeaf(t) THEN [InnerNode(<<>>, 0) EXCEPT !.md = t.md] ELSE t, Inf, 1, Len(P.sz), t.s, P).t

\* what C08 demands of the result t2 of appending new chunks of total length L2 to t
AppendContentOK(t, t2, L2) ==
    /\ WellFormed(t2)                                               \* "sizes are consistent"
    /\ ContentOK(t2, t.s + L2)                                      \* new content = old content ++ new bytes ...
    /\ LET a == LeavesOf(t) b == LeavesOf(t2) IN                    \* ... and the old leaves are still its prefix
         t.s = 0 \/ (Len(b) >= Len(a) /\ \A i \in 1..Len(a) : b[i] = a[i])
AppendOK(t, t2, L2, w, lk) == AppendContentOK(t, t2, L2) /\ TrickleShapeOK(t2, w, lk)

(* ------------------------------------------------------------------ CID layer and DAG service (C08)
   A file DAG lives in a DAG service: a map from CIDs to blocks.  A parent refers to a child by the
   child's CID, and the CID of a node is fixed by the node's bytes AND the CID builder it is hashed
   with.  C08 quantifies over the whole builder space and over both ways an append is reached:

     CidBuilders : "v0" (CIDv0 = sha2-256, raw leaves are CIDv1), CIDv1 with "sha2-256" | "blake2b-256" |
                   "sha3-256", and "identity" (the node's bytes ARE the digest; a DAG service only accepts
                   identity digests of at most IdLimit bytes);
     Entries     : "trickle"  = trickle.Append on a plain DAG service (which REFUSES a node whose identity
                                digest is over the limit),
                   "modifier" = the DagModifier's append, documented to switch a node "to a cryptographic
                                hash function when the encoded data would exceed this limit" -- i.e. the DAG
                                service the append runs on may RE-HASH a node while storing it.

   Whatever the builder and the entry, the appended file is a DAG *in the service*: every link of every node,
   followed by CID through the service, resolves (NO DANGLING LINK: a link must carry the CID its child was
   stored under, also when the service re-hashed the child), and every CID is one the configuration allows.
   The harness projects this layer into the same tree: a node that a link points to but the service does not
   hold is projected as k = "missing"; cv = CID version, hk = multihash function, el = block length in bytes
   (only reported under the identity builder).                                                            *)
IdLimit == 128                 \* verifcid.DefaultMaxIdentityDigestSize
FallbackHash == "sha2-256"     \* util.DefaultIpfsHash
CidBuilders == {"v0", "sha2-256", "blake2b-256", "sha3-256", "identity"}
Entries == {"trickle", "modifier"}
DefCv(cb, k) == IF cb = "v0" /\ k # "raw" THEN 0 ELSE 1
DefHk(cb, k) == IF cb = "v0" THEN "sha2-256" ELSE cb
\* c = [k, cv, hk, el, ch] (the CID-layer view of a projected node, see TraceUnixFSFile!NormC)
RECURSIVE Resolves(_)
Resolves(c) == c.k # "missing" /\ \A i \in 1..Len(c.ch) : Resolves(c.ch[i])
CidNodeOK(c, cb) ==
    IF cb = "identity"
    THEN /\ c.cv = 1
         /\ c.hk \in {"identity", FallbackHash}
         /\ (c.hk = "identity" => (c.el >= 0 /\ c.el <= IdLimit))     \* a CID the DAG service accepts
    ELSE c.cv = DefCv(cb, c.k) /\ c.hk = DefHk(cb, c.k)
RECURSIVE AllCidOK(_, _)
AllCidOK(c, cb) == CidNodeOK(c, cb) /\ \A i \in 1..Len(c.ch) : AllCidOK(c.ch[i], cb)
\* the DAG the append is building cannot be stored as it is: some node hashed with identity is over the limit
RECURSIVE HasOversizedIdentity(_)
HasOversizedIdentity(c) == (c.hk = "identity" /\ c.el > IdLimit) \/ \E i \in 1..Len(c.ch) : HasOversizedIdentity(c.ch[i])
\* An append may fail (return an error, leaving the base file as it was) only when the entry has no way to
\* store the DAG: plain DAG service + identity builder + a node over the limit.  The modifier entry never may.
MayRefuse(cb, via, witness) == cb = "identity" /\ via = "trickle" /\ Resolves(witness) /\ HasOversizedIdentity(witness)
StoreOK(c, cb) == Resolves(c) /\ AllCidOK(c, cb)

(* ------------------------------------------------------------------ trickle.Append AS BUILT
   (open finding C08-append-too-deep).  A transcription of Append / appendFillLastChild / appendRec
   of trickledag.go, used ONLY by the deviation action of TraceUnixFSFile to recognise exactly the
   known wrong behaviour.  The code infers from the child count where the layout stopped:
   depth = (children - w) div 4 + 1, repeat = (children - w) mod 4, and after topping up the last
   child it ALWAYS continues one depth further ("our depth is now increased by one").  That is right
   when the current layer was partially filled (repeat # 0) but wrong when the node ended exactly on
   a layer boundary (repeat = 0, or only direct leaves): the sub-trickles added next are one level
   deeper than their position allows.  All operators return [t |-> node, used |-> chunks consumed]. *)
ABInfo(nch, w) == IF nch < w THEN [depth |-> 0, rep |-> 0]
                  ELSE [depth |-> ((nch - w) \div DepthRepeat) + 1, rep |-> (nch - w) % DepthRepeat]
Max2(a, b) == IF a >= b THEN a ELSE b
Rebuild(t, kids) == [InnerNode(kids, t.o) EXCEPT !.md = t.md]
\* fillTrickleRec(db, new node, maxDepth) with cnt chunks left: maxDepth <= 1 gives leaves only
ABNew(maxDepth, i, cnt, off, P) == TSub(Max2(maxDepth, 1), i, Min2(cnt, TCap(Max2(maxDepth, 1), P.w, cnt)), off, P)
\* "for ; rep < depthRepeat && !db.Done(); rep++ { AddChild(fillTrickleRec(depth)) }"
RECURSIVE ABRepeat(_, _, _, _, _, _, _)
ABRepeat(kids, rep, depth, i, cnt, off, P) ==
    IF rep >= DepthRepeat \/ cnt = 0 THEN [kids |-> kids, used |-> 0]
    ELSE LET c == ABNew(depth, i, cnt, off, P)
             u == Len(LeavesOf(c))
             r == ABRepeat(Append(kids, c), rep + 1, depth, i + u, cnt - u, off + c.s, P)
         IN  [kids |-> r.kids, used |-> u + r.used]
\* "for i := depth; i < maxDepth && !db.Done(); i++ { 4 x AddChild(fillTrickleRec(i)) }"  (maxDepth = Inf at the root)
RECURSIVE ABLayers(_, _, _, _, _, _, _)
ABLayers(kids, depth, maxDepth, i, cnt, off, P) ==
    IF depth >= maxDepth \/ cnt = 0 THEN [kids |-> kids, used |-> 0]
    ELSE LET a == ABRepeat(kids, 0, depth, i, cnt, off, P)
             o2 == off + Sum(SizesOf(SubSeq(a.kids, Len(kids) + 1, Len(a.kids))))
             r == ABLayers(a.kids, depth + 1, maxDepth, i + a.used, cnt - a.used, o2, P)
         IN  [kids |-> r.kids, used |-> a.used + r.used]
\* FillNodeLayer on an existing node
ABTopUp(kids, i, cnt, off, P) ==
    LET k1 == Min2(cnt, Max2(P.w - Len(kids), 0)) IN [kids |-> kids \o TLeaves(i, k1, off, P), used |-> k1]

RECURSIVE ABFillLast(_, _, _, _, _, _, _), ABRec(_, _, _, _, _, _)
ABFillLast(kids, depth, rep, i, cnt, off, P) ==
    IF Len(kids) <= P.w THEN [kids |-> kids, used |-> 0]
    ELSE LET nch == Len(kids)
             r   == ABRec(kids[nch], depth - 1, i, cnt, off, P)
             k2  == SubSeq(kids, 1, nch - 1) \o <<r.t>>
             o2  == off + (r.t.s - kids[nch].s)
         IN  IF rep # 0
             THEN LET a == ABRepeat(k2, rep, depth, i + r.used, cnt - r.used, o2, P)
                  IN  [kids |-> a.kids, used |-> r.used + a.used]
             ELSE [kids |-> k2, used |-> r.used]
ABRec(t, maxDepth, i, cnt, off, P) ==
    IF maxDepth = 0 \/ cnt = 0 THEN [t |-> t, used |-> 0]
    ELSE LET inf == ABInfo(Len(t.ch), P.w)
             a   == IF inf.depth = 0 THEN ABTopUp(t.ch, i, cnt, off, P) ELSE [kids |-> t.ch, used |-> 0]
             d1  == IF inf.depth = 0 THEN 1 ELSE inf.depth
             o1  == off + Sum(SizesOf(SubSeq(a.kids, Len(t.ch) + 1, Len(a.kids))))
         IN  IF d1 = maxDepth THEN [t |-> Rebuild(t, a.kids), used |-> a.used]
             ELSE LET b  == ABFillLast(a.kids, d1, inf.rep, i + a.used, cnt - a.used, o1, P)
                      u2 == a.used + b.used
                      d2 == IF cnt - u2 > 0 THEN d1 + 1 ELSE d1          \* "our depth is now increased by one"
                      o2 == t.o + Sum(SizesOf(b.kids))
                      c  == ABLayers(b.kids, d2, maxDepth, i + u2, cnt - u2, o2, P)
                  IN  [t |-> Rebuild(t, c.kids), used |-> u2 + c.used]
\* Append(base, db): P.sz = sizes of the new chunks
AsBuiltAppend(t0, P) ==
    LET t   == IF IsLeaf(t0) THEN [InnerNode(<<>>, 0) EXCEPT !.md = t0.md] ELSE t0
        cnt == Len(P.sz)
        inf == ABInfo(Len(t.ch), P.w)
        a   == IF inf.depth = 0 THEN ABTopUp(t.ch, 1, cnt, t.s, P) ELSE [kids |-> t.ch, used |-> 0]
        d1  == IF inf.depth = 0 THEN 1 ELSE inf.depth
    IN  IF cnt = 0 THEN t0
        ELSE IF cnt - a.used = 0 THEN Rebuild(t, a.kids)
        ELSE LET o1 == t.o + Sum(SizesOf(a.kids))
                 b  == ABFillLast(a.kids, d1 - 1, inf.rep, 1 + a.used, cnt - a.used, o1, P)
                 u2 == a.used + b.used
                 d2 == IF cnt - u2 > 0 THEN d1 + 1 ELSE d1
                 o2 == t.o + Sum(SizesOf(b.kids))
                 c  == ABLayers(b.kids, d2, Inf, 1 + u2, cnt - u2, o2, P)
             IN  Rebuild(t, c.kids)
\* the node at which the as-built rule goes wrong: the root (or a right-spine node) ends on a layer boundary
OnLayerBoundary(t, w) == IsLeaf(t) \/ ABInfo(Len(t.ch), w).rep = 0

(* ------------------------------------------------------------------ state machine (phase M)
   One file store: handle -> [live, tree, w, lk, layout, meta, fresh, base]; Import builds the
   documented layout, AppendTo extends a trickle file ideally.  `fresh` = sizes of all chunks so far,
   `base` = handle the file was appended from (0: imported).  In phase M `files` is a sequence,
   in phase T (TraceUnixFSFile) a function over a few re-usable slots.                           *)
CONSTANTS MaxN,       \* chunks per import / append
          Widths, ChunkSz, MaxFiles
VARIABLES files
vars == <<files>>

NoFile == [live |-> FALSE]
SizeSeqs(n) == IF n = 0 THEN {<<>>}
               ELSE {[i \in 1..n |-> IF i = n THEN r ELSE ChunkSz] : r \in {ChunkSz, 1}}
LayoutOf(layout, P, meta) == IF layout = "bal" THEN BalancedLayout(P, meta) ELSE TrickleLayout(P, meta)
Init == files = <<>>
Import == \E n \in 0..MaxN, w \in Widths, lk \in {"raw", "pb"}, layout \in {"bal", "tri"}, meta \in BOOLEAN :
          \E sz \in SizeSeqs(n) :
            LET P == [w |-> w, lk |-> lk, sz |-> sz] IN
            /\ files = <<>>
            /\ files' = Append(files, [live |-> TRUE, tree |-> LayoutOf(layout, P, meta),
                                       w |-> w, lk |-> lk, layout |-> layout, meta |-> meta, fresh |-> sz, base |-> 0, dv |-> FALSE])
AppendTo == \E h \in 1..Len(files), m \in 1..MaxN : \E sz \in SizeSeqs(m) :
            LET f == files[h] P == [w |-> f.w, lk |-> f.lk, sz |-> sz] IN
            /\ Len(files) < MaxFiles /\ f.layout = "tri"
            /\ files' = Append(files, [f EXCEPT !.tree = IdealAppend(f.tree, P), !.fresh = f.fresh \o sz, !.base = h])
Next == Import \/ AppendTo
Spec == Init /\ [][Next]_vars

LeafTy(layout) == IF layout = "bal" THEN "file" ELSE "raw"
FileOK(f) ==
    LET L == Sum(f.fresh) IN
    /\ WellFormed(f.tree) /\ ContentOK(f.tree, L) /\ MetaOK(f.tree, f.meta)
    /\ LeafSizes(f.tree) = (IF f.fresh = <<>> THEN <<0>> ELSE f.fresh)
    /\ IF f.layout = "bal" THEN BalancedShapeOK(f.tree, f.w) ELSE (f.dv \/ TrickleShapeOK(f.tree, f.w, f.lk))   \* dv: accepted through a named deviation
    /\ (~IsLeaf(f.tree) => LeafKindOK(f.tree, f.lk, LeafTy(f.layout)))
AllFilesOK == \A h \in DOMAIN files : files[h].live => FileOK(files[h])
AppendPreserves == \A h \in DOMAIN files : (files[h].live /\ files[h].base # 0) =>
    LET f == files[h] b == files[f.base] IN AppendOK(b.tree, f.tree, Sum(f.fresh) - Sum(b.fresh), f.w, f.lk)
\* the ideal append continues the fresh layout (a short last chunk of the base simply stays short)
AppendEqualsFresh == \A h \in DOMAIN files : (files[h].live /\ files[h].layout = "tri") =>
    files[h].tree = TrickleLayout([w |-> files[h].w, lk |-> files[h].lk, sz |-> files[h].fresh], files[h].meta)

\* constant-level sanity of the two constructions for n chunks of width w (used in ASSUMEs of MCUnixFSFile)
LayoutsOK(n, w) == \A lk \in {"raw", "pb"}, layout \in {"bal", "tri"} :
    LET sz == [i \in 1..n |-> ChunkSz] IN
    FileOK([live |-> TRUE, tree |-> LayoutOf(layout, [w |-> w, lk |-> lk, sz |-> sz], FALSE), w |-> w, lk |-> lk,
            layout |-> layout, meta |-> FALSE, fresh |-> sz, base |-> 0, dv |-> FALSE])
=============================================================================
