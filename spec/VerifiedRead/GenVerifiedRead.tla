---------------------------- MODULE GenVerifiedRead ----------------------------
(* Phase G: every fault sequence of length D (BFS) of VerifiedRead, per configuration, printed
   as JSON.  After each fault the behaviour carries the projected container state
   (st, base, cont: the harness materialises the real datastore value / file / HTTP resource
   from it, for every concrete byte position the model byte stands for) and, per reference, the
   set of results Get may return (`exp`).  The harness Gets every reference through every read
   API after every step and compares.  `held` = the blocks handed out so far (the harness reads every
   reference after every step and KEEPS every block it got): after every step the harness re-examines
   all blocks it holds; each must project onto a member of `held` (RetainedGenuine: all genuine). *)
EXTENDS VerifiedRead
CONSTANTS D
VARIABLE hist
gvars == <<vars, hist>>

C(k, p, n, s, r, rd) == [kind |-> k, P |-> p, N |-> n, S |-> s, R |-> r, rd |-> rd]
HashFlavours == {"v0", "v1", "s512", "b2b", "t20", "id"}
GenConfigs == { C("vbs", 0, n, 0, 1, h) : n \in {1, 3}, h \in HashFlavours }
        \cup  { C("vbs", 0, 0, 0, 1, "v1") }
        \cup  { C("file", 0, 3, 0, 1, rd) : rd \in {"std", "mmap"} }
        \cup  { C("file", 1, 3, 1, 2, rd) : rd \in {"std", "mmap"} }
        \cup  { C("file", 1, 1, 0, 1, "std"), C("file", 0, 0, 0, 1, "std"), C("file", 0, 0, 0, 1, "mmap") }
        \cup  { C("url", 0, 3, 0, 1, "range"), C("url", 1, 3, 1, 2, "range"),
                C("url", 0, 3, 0, 2, "full"), C("url", 1, 3, 0, 1, "full") }
\* the slow kinds (real files, HTTP) separately so that the driver can size them
GenConfigsVbs  == { c \in GenConfigs : c.kind = "vbs" }
\* depth 3 (thorough): single-reference layouts only (two-reference layouts: depth 2 and the recorded traces)
GenConfigsFile == { C("file", 1, 3, 1, 1, "std"), C("file", 1, 3, 1, 1, "mmap"), C("file", 0, 3, 0, 1, "mmap"),
                    C("file", 0, 1, 0, 1, "std") }
GenConfigsUrl  == { C("url", 1, 3, 0, 1, "range"), C("url", 0, 3, 0, 1, "full") }

ExpAll == [r \in Refs |-> GetResults(r)]
\* blocks obtained by reading every reference in this state (the spec's Get, applied to all r)
GotAll == UNION {Returned(r) : r \in Refs}
Step(op, a, b) == hist' = Append(hist, [op |-> op, a |-> a, b |-> b,
                                        st |-> st', base |-> base', cont |-> cont', exp |-> ExpAll',
                                        held |-> hist[Len(hist)].held \cup GotAll'])

\* hist[1] is the pristine container (pseudo step "Init")
GInit == Init /\ hist = <<[op |-> "Init", a |-> 0, b |-> 0, st |-> st, base |-> base, cont |-> cont, exp |-> ExpAll,
                         held |-> GotAll]>>
GNext == /\ Len(hist) < D + 1
         /\ \/ \E i \in 1..MaxLen, m \in Masks : Flip(i, m) /\ Step("Flip", i, m)
            \/ \E n \in 0..MaxLen : Truncate(n) /\ Step("Truncate", n, 0)
            \/ \E v \in {0} \cup Masks : Extend(v) /\ Step("Extend", v, 0)
            \/ Remove /\ Step("Remove", 0, 0)
            \/ MakeDir /\ Step("MakeDir", 0, 0)
            \/ Restore /\ Step("Restore", 0, 0)
            \/ Swap /\ Step("Swap", 0, 0)
GSpec == GInit /\ [][GNext]_gvars

Emit == Len(hist) # D + 1 \/ PrintT(<<"BEHAVIOUR", ToJson([cfg |-> cfg, steps |-> hist])>>)
=============================================================================
