SPECIFICATION GSpec
CONSTANTS Configs <- GenConfigs
          Masks = {1, 2}
          MaxExtra = 1
          D = 2
INVARIANTS Emit
