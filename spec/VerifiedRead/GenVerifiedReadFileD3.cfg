SPECIFICATION GSpec
CONSTANTS Configs <- GenConfigsFile
          Masks = {1, 2}
          MaxExtra = 1
          D = 3
INVARIANTS Emit
