SPECIFICATION GSpec
CONSTANTS Configs <- GenConfigsUrl
          Masks = {1, 2}
          MaxExtra = 1
          D = 3
INVARIANTS Emit
