SPECIFICATION Spec
CONSTANTS Configs <- MCConfigsQuick
          Masks = {1}
          MaxExtra = 1
INVARIANTS TypeOK OnlyGenuine RetainedGenuine CorruptReported GenuineServed
