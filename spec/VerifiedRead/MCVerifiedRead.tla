---------------------------- MODULE MCVerifiedRead ----------------------------
(* Phase M: exhaustive exploration of VerifiedRead (unbounded fault sequences) for a
   representative set of layouts; the invariants are the property C03. *)
EXTENDS VerifiedRead

C(k, p, n, s, r, rd) == [kind |-> k, P |-> p, N |-> n, S |-> s, R |-> r, rd |-> rd]

\* quick: one layout per kind with prefix, two regions (file/url) and suffix
MCConfigsQuick == { C("vbs", 0, 3, 0, 1, "v1"),
                    C("file", 1, 2, 1, 2, "std"), C("file", 1, 2, 0, 2, "mmap"),
                    C("url", 1, 2, 1, 2, "range"), C("url", 0, 2, 0, 2, "full") }
MCConfigsFull  == { C("vbs", 0, n, 0, 1, "v1") : n \in {0, 1, 3} }
            \cup  { C("file", p, 3, s, r, rd) : p \in {0, 1}, s \in {0, 1}, r \in {1, 2}, rd \in {"std", "mmap"} }
            \cup  { C("file", 0, 0, 0, 1, rd) : rd \in {"std", "mmap"} }
            \cup  { C("url", p, 3, 0, r, rd) : p \in {0, 1}, r \in {1, 2}, rd \in {"range", "full"} }
=============================================================================
