SPECIFICATION Spec
CONSTANTS Configs <- MCConfigsFull
          Masks = {1}
          MaxExtra = 1
INVARIANTS TypeOK OnlyGenuine RetainedGenuine CorruptReported GenuineServed
