SPECIFICATION Spec
CONSTANTS Configs <- MCConfigsQuick
          Masks = {1, 2}
          MaxExtra = 1
INVARIANTS TypeOK OnlyGenuine CorruptReported GenuineServed
