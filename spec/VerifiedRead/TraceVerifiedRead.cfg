SPECIFICATION TSpec
CONSTANTS Configs = {}
          Masks = {1, 2}
          MaxExtra = 1
INVARIANTS TypeOK OnlyGenuine RetainedGenuine OldGenuine CorruptReported GenuineServed
CONSTRAINT TraceConstraint
POSTCONDITION TracePost
CHECK_DEADLOCK FALSE
