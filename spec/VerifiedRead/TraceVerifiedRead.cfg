SPECIFICATION TSpec
CONSTANTS Configs = {}
          Masks = {1, 2}
          MaxExtra = 1
INVARIANTS TypeOK OnlyGenuine CorruptReported GenuineServed
CONSTRAINT TraceConstraint
POSTCONDITION TracePost
CHECK_DEADLOCK FALSE
