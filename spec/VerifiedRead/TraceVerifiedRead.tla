--------------------------- MODULE TraceVerifiedRead ---------------------------
(* Phase T: a recorded history of faults applied to a real backing store and of Gets through the
   real ValidatingBlockstore / FileManager / Filestore (several runs separated by Reset events)
   must be a behaviour of VerifiedRead: every logged Get result must be one the spec allows in the
   state the logged faults lead to, and an ok result must carry bytes whose (independently
   computed) hash is the CID.  The harness keeps blocks it was handed (also across runs: `old`) and
   re-examines them later (Recheck events, after sequential and concurrent Gets of other references
   and after faults): every block it still holds must be one the spec says was handed out, with the
   genuineness the spec says it has (RetainedGenuine / OldGenuine: always genuine). *)
EXTENDS VerifiedRead, Integers

Trace == ndJsonDeserialize("trace.ndjson")
VARIABLES l,
          run,  \* number of the current run (Reset events so far)
          old   \* blocks handed out in earlier runs: [run, r, genuine]
tvars == <<vars, l, run, old>>
ASSUME TLCSet(1, 0)

Ev == Trace[l]
IsEvent(e) == l <= Len(Trace) /\ Trace[l].ev = e /\ l' = l + 1

NoCfg == [kind |-> "vbs", P |-> 0, N |-> 0, S |-> 0, R |-> 1, rd |-> "v1"]
TInit == l = 1 /\ cfg = NoCfg /\ st = "present" /\ base = "own" /\ cont = <<>> /\ last = None
         /\ handed = {} /\ run = 0 /\ old = {}

TReset == /\ IsEvent("Reset")
          /\ Ev.cfg.kind \in {"vbs", "file", "url"} /\ Ev.cfg.N \in 0..3 /\ Ev.cfg.R \in 1..3
          /\ cfg' = [kind |-> Ev.cfg.kind, P |-> Ev.cfg.P, N |-> Ev.cfg.N, S |-> Ev.cfg.S, R |-> Ev.cfg.R, rd |-> Ev.cfg.rd]
          /\ st' = "present" /\ base' = "own" /\ cont' = Zeros(Total(cfg')) /\ last' = None
          \* blocks of the finished run stay with their holders
          /\ Ev.run = run + 1 /\ run' = run + 1 /\ handed' = {}
          /\ old' = old \cup {[run |-> run, r |-> b.r, genuine |-> b.genuine] : b \in handed}
Same      == UNCHANGED <<run, old>>
TFlip     == IsEvent("Flip") /\ Flip(Ev.i, Ev.m) /\ Same
TTruncate == IsEvent("Truncate") /\ Truncate(Ev.n) /\ Same
TExtend   == IsEvent("Extend") /\ Extend(Ev.v) /\ Same
TRemove   == IsEvent("Remove") /\ Remove /\ Same
TMakeDir  == IsEvent("MakeDir") /\ MakeDir /\ Same
TRestore  == IsEvent("Restore") /\ Restore /\ Same
TSwap     == IsEvent("Swap") /\ Swap /\ Same
TGet      == /\ IsEvent("Get") /\ Ev.detail = ""
             /\ [res |-> Ev.res, class |-> Ev.class, status |-> Ev.status] \in GetResults(Ev.r)
             /\ (Ev.res = "ok" => Ev.hashok /\ Ev.same)
             /\ Get(Ev.r)
             /\ last'.out = [res |-> Ev.res, class |-> Ev.class, status |-> Ev.status]
             /\ Same
\* the holder re-examines blocks it was handed earlier (projection: run, reference, "bytes hash to the
\* CID now"): each must be a block the spec handed out, as the spec says it is now
TRecheck  == /\ IsEvent("Recheck")
             /\ \A i \in 1..Len(Ev.blocks) :
                   LET b == Ev.blocks[i] IN
                   IF b.run = run THEN [r |-> b.r, genuine |-> b.genuine] \in handed
                                  ELSE [run |-> b.run, r |-> b.r, genuine |-> b.genuine] \in old
             /\ UNCHANGED vars /\ Same

TNext == TReset \/ TFlip \/ TTruncate \/ TExtend \/ TRemove \/ TMakeDir \/ TRestore \/ TSwap \/ TGet \/ TRecheck
TSpec == TInit /\ [][TNext]_tvars

OldGenuine == \A b \in old : b.genuine

TraceConstraint == TLCSet(1, IF l - 1 > TLCGet(1) THEN l - 1 ELSE TLCGet(1))
TracePost == PrintT(<<"TRACE_HWM", TLCGet(1)>>)
=============================================================================
