--------------------------- MODULE TraceVerifiedRead ---------------------------
(* Phase T: a recorded history of faults applied to a real backing store and of Gets through the
   real ValidatingBlockstore / FileManager / Filestore (several runs separated by Reset events)
   must be a behaviour of VerifiedRead: every logged Get result must be one the spec allows in the
   state the logged faults lead to, and an ok result must carry bytes whose (independently
   computed) hash is the CID. *)
EXTENDS VerifiedRead, Integers

Trace == ndJsonDeserialize("trace.ndjson")
VARIABLE l
tvars == <<vars, l>>
ASSUME TLCSet(1, 0)

Ev == Trace[l]
IsEvent(e) == l <= Len(Trace) /\ Trace[l].ev = e /\ l' = l + 1

NoCfg == [kind |-> "vbs", P |-> 0, N |-> 0, S |-> 0, R |-> 1, rd |-> "v1"]
TInit == l = 1 /\ cfg = NoCfg /\ st = "present" /\ base = "own" /\ cont = <<>> /\ last = None

TReset == /\ IsEvent("Reset")
          /\ Ev.cfg.kind \in {"vbs", "file", "url"} /\ Ev.cfg.N \in 0..3 /\ Ev.cfg.R \in 1..3
          /\ cfg' = [kind |-> Ev.cfg.kind, P |-> Ev.cfg.P, N |-> Ev.cfg.N, S |-> Ev.cfg.S, R |-> Ev.cfg.R, rd |-> Ev.cfg.rd]
          /\ st' = "present" /\ base' = "own" /\ cont' = Zeros(Total(cfg')) /\ last' = None
TFlip     == IsEvent("Flip") /\ Flip(Ev.i, Ev.m)
TTruncate == IsEvent("Truncate") /\ Truncate(Ev.n)
TExtend   == IsEvent("Extend") /\ Extend(Ev.v)
TRemove   == IsEvent("Remove") /\ Remove
TMakeDir  == IsEvent("MakeDir") /\ MakeDir
TRestore  == IsEvent("Restore") /\ Restore
TSwap     == IsEvent("Swap") /\ Swap
TGet      == /\ IsEvent("Get") /\ Ev.detail = ""
             /\ [res |-> Ev.res, class |-> Ev.class, status |-> Ev.status] \in GetResults(Ev.r)
             /\ (Ev.res = "ok" => Ev.hashok /\ Ev.same)
             /\ Get(Ev.r)
             /\ last'.out = [res |-> Ev.res, class |-> Ev.class, status |-> Ev.status]

TNext == TReset \/ TFlip \/ TTruncate \/ TExtend \/ TRemove \/ TMakeDir \/ TRestore \/ TSwap \/ TGet
TSpec == TInit /\ [][TNext]_tvars

TraceConstraint == TLCSet(1, IF l - 1 > TLCGet(1) THEN l - 1 ELSE TLCGet(1))
TracePost == PrintT(<<"TRACE_HWM", TLCGet(1)>>)
=============================================================================
