----------------------------- MODULE VerifiedRead -----------------------------
(* C03 -- verified reads: a validating blockstore / the filestore returns bytes for a CID
   only if the bytes that the backing store (datastore value, file region, URL body)
   yields NOW hash to that CID, and reports an error otherwise.

   One backing CONTAINER (the datastore value of one block | one file | one URL resource)
   holds, in this order, P prefix bytes, R referenced regions of N bytes each, S suffix
   bytes.  Reference r (1..R) = (offset P+(r-1)N, size N, CID = hash of the ORIGINAL region).
   A byte is modelled by its DELTA to the original byte at that position (0 = original,
   1..3 = original XOR mask), a container by the sequence of deltas it currently holds
   (`cont`, possibly shorter = truncated, or longer = extended), plus
       st   : "present" | "absent" (block deleted / file removed / HTTP 404)
                        | "dir"    (file replaced by a directory / HTTP 500)
       base : "own" | "other"   (container replaced wholesale by another genuine
                                 block's / file's bytes of the same layout)
   Hashing is collision free on the universe used: Hash(x) = cid(r) <=> x = original region r
   (the harness chooses originals/foreign bytes so that no delta sequence maps one onto another).

   Each model byte stands for a SEGMENT of concrete bytes (harness: first byte | bytes
   1..m | bytes m+1..L-1 of a block of length L, for every m), so `cont` is exact for
   "region = original" while the harness sweeps every concrete byte position.

   Get(r) follows the code's steps: look up / open (absent, dir), read `size` bytes at
   `offset` (short read), re-hash and compare.

   A block RETURNED by a successful Get is a value the caller keeps: `handed` is the set of all
   blocks handed out so far (reference + "its bytes hash to the CID of that reference").  No
   action -- neither a fault of the backing store nor a later Get of the same or of another
   reference -- changes a handed-out block (frame condition `handed' = handed` of every fault,
   Get only ADDS the block it returns), so the property "returns a block only if its bytes hash
   to the requested CID" holds for every block handed out, at every later state
   (`RetainedGenuine`), not only at the moment of the return.  *)
EXTENDS Naturals, Sequences, FiniteSets, TLC, Json

CONSTANTS Configs,    \* set of [kind, P, N, S, R, rd]
          Masks,      \* subset of 1..3: XOR masks a Flip may apply
          MaxExtra    \* container may grow this many model bytes beyond its original length

VARIABLES cfg,   \* the configuration (constant during a behaviour)
          st, base, cont,
          last,  \* result of the last Get since the last fault, or None
          handed \* blocks returned (res = ok) so far, as the callers hold them NOW: [r, genuine]
vars == <<cfg, st, base, cont, last, handed>>

None == [r |-> 0]

Total(c) == c.P + c.R * c.N + c.S
Zeros(n) == [i \in 1..n |-> 0]
Min(a, b) == IF a < b THEN a ELSE b
Bit0(a)   == a % 2
Bit1(a)   == (a \div 2) % 2
Xor(a, b) == ((Bit0(a) + Bit0(b)) % 2) + (2 * ((Bit1(a) + Bit1(b)) % 2))

Refs     == 1..cfg.R
Off(r)   == cfg.P + (r - 1) * cfg.N
MaxLen   == Total(cfg) + MaxExtra

(* ---- what the backing store yields for reference r ------------------------------- *)
\* a URL server that ignores the Range header answers 200 with the resource from byte 0
IgnoresRange == cfg.kind = "url" /\ cfg.rd = "full"
ReadOff(r)   == IF IgnoresRange THEN 0 ELSE Off(r)
Avail(r)     == IF Len(cont) > ReadOff(r) THEN Min(Len(cont) - ReadOff(r), cfg.N) ELSE 0
Short(r)     == Avail(r) < cfg.N                      \* fewer than `size` bytes can be read
\* held[r] = orig[r] : the bytes read are exactly the original region
Intact(r) == /\ st = "present" /\ ~Short(r)
             /\ (base = "own" \/ cfg.N = 0)            \* every container yields the empty region
             /\ ReadOff(r) = Off(r)                   \* bytes of another region/prefix are foreign
             /\ (cfg.kind = "vbs" => Len(cont) = cfg.N) \* a datastore value is read whole: extension counts
             /\ \A i \in 1..cfg.N : cont[Off(r) + i] = 0

(* ---- Get: the set of results the caller may observe ------------------------------- *)
Ok          == [res |-> "ok",  class |-> "",  status |-> ""]
Err(cl, s)  == [res |-> "err", class |-> cl,  status |-> s]
AnyStatus   == {"changed", "notfound", "error"}
Corrupt(ss) == {Err("corrupt", s) : s \in ss}

GetResults(r) ==
  CASE cfg.kind = "vbs" ->
         IF st = "absent" THEN {Err("notfound", "")}            \* inner blockstore: ipld.ErrNotFound
         ELSE IF Intact(r) THEN {Ok}
         ELSE {Err("mismatch", "")}                              \* ErrHashMismatch
    [] cfg.kind = "file" ->
         IF st = "absent" THEN Corrupt({"notfound"})            \* os.IsNotExist
         ELSE IF st = "dir" THEN Corrupt(AnyStatus)              \* open/read of a directory fails somehow
         ELSE IF Intact(r) THEN {Ok}
         \* x/exp/mmap reports an offset beyond EOF as a generic error instead of io.EOF
         ELSE IF cfg.rd = "mmap" /\ Len(cont) < Off(r) THEN Corrupt({"changed", "error"})
         ELSE Corrupt({"changed"})                               \* short read or hash mismatch
    [] cfg.kind = "url" ->
         IF st # "present" THEN Corrupt({"error", "notfound"})  \* non-200/206 answer
         ELSE IF Intact(r) THEN {Ok}
         ELSE Corrupt({"changed"})                               \* short body or hash mismatch

\* the block a successful Get(r) hands to its caller: it carries the bytes read in THIS state
BlockOf(r)  == [r |-> r, genuine |-> Intact(r)]
\* blocks a caller may obtain by Get(r) in this state (generator: every reference is read after every fault)
Returned(r) == IF Ok \in GetResults(r) THEN {BlockOf(r)} ELSE {}

Get(r) == /\ r \in Refs
          /\ \E o \in GetResults(r) :
                /\ last' = [r |-> r, out |-> o, intact |-> Intact(r)]
                \* earlier blocks are untouched by this read, whatever reference it reads
                /\ handed' = handed \cup (IF o.res = "ok" THEN {BlockOf(r)} ELSE {})
          /\ UNCHANGED <<cfg, st, base, cont>>

(* ---- faults (the environment) ------------------------------------------------------ *)
\* a fault changes the backing store only: blocks already handed out keep their bytes
Fault == last' = None /\ UNCHANGED <<cfg, handed>>

Flip(i, m)  == /\ st = "present" /\ i \in 1..Len(cont) /\ m \in Masks
               /\ cont' = [cont EXCEPT ![i] = Xor(@, m)]
               /\ UNCHANGED <<st, base>> /\ Fault
Truncate(n) == /\ st = "present" /\ n < Len(cont)
               /\ cont' = SubSeq(cont, 1, n)
               /\ UNCHANGED <<st, base>> /\ Fault
\* Extend: v = 0 re-creates the original segment when inside the original length
Extend(v)   == /\ st = "present" /\ Len(cont) < MaxLen /\ v \in {0} \cup Masks
               /\ cont' = Append(cont, v)
               /\ UNCHANGED <<st, base>> /\ Fault
Remove      == /\ st # "absent"
               /\ st' = "absent" /\ cont' = <<>> /\ base' = "own" /\ Fault
\* (a zero-length reference reads nothing from a directory: outcome unspecified, not modelled)
MakeDir     == /\ cfg.kind # "vbs" /\ cfg.N > 0 /\ st # "dir"
               /\ st' = "dir" /\ cont' = <<>> /\ base' = "own" /\ Fault
Restore     == /\ st' = "present" /\ base' = "own" /\ cont' = Zeros(Total(cfg)) /\ Fault
Swap        == /\ st' = "present" /\ base' = "other" /\ cont' = Zeros(Total(cfg)) /\ Fault

Init == /\ cfg \in Configs
        /\ st = "present" /\ base = "own" /\ cont = Zeros(Total(cfg)) /\ last = None
        /\ handed = {}

FaultNext == \/ \E i \in 1..MaxLen, m \in Masks : Flip(i, m)
             \/ \E n \in 0..MaxLen : Truncate(n)
             \/ \E v \in {0} \cup Masks : Extend(v)
             \/ Remove \/ MakeDir \/ Restore \/ Swap
Next == FaultNext \/ \E r \in Refs : Get(r)
Spec == Init /\ [][Next]_vars

(* ---- the property ------------------------------------------------------------------ *)
TypeOK == /\ st \in {"present", "absent", "dir"} /\ base \in {"own", "other"}
          /\ cont \in Seq(0..3) /\ Len(cont) <= MaxLen
          /\ (st # "present" => cont = <<>>)
          /\ handed \subseteq [r : Refs, genuine : BOOLEAN]
\* Get(c) = ok(x) => Hash(x) = c
OnlyGenuine == last # None => (last.out.res = "ok" => last.intact)
\* every block ever returned still hashes to the CID it was requested by, after any number of
\* later faults and Gets (of the same or of other references)
RetainedGenuine == \A b \in handed : b.genuine
\* held[c] # orig[c] => Get(c) is an error; for the filestore a corrupt-reference error whose
\* status says "changed" when the file content changed / shrank and "notfound" when it vanished
CorruptReported ==
  (last # None /\ ~last.intact) =>
     /\ last.out.res = "err"
     /\ cfg.kind # "vbs" => last.out.class = "corrupt"
     /\ (cfg.kind = "file" /\ st = "absent") => last.out.status = "notfound"
     /\ (cfg.kind = "file" /\ st = "present" /\ ~(cfg.rd = "mmap" /\ Len(cont) < Off(last.r)))
           => last.out.status = "changed"
     /\ (cfg.kind = "url" /\ st = "present") => last.out.status = "changed"
\* not part of C03 proper: genuine (also: repaired) content is served
GenuineServed == (last # None /\ last.intact) => last.out.res = "ok"
=============================================================================
